"""C01 - consumer MDIB is an exact mirror of the provider MDIB after any report history (world B, fault-free
delivery). This is the fault-free configuration of the C06 simulation."""
from __future__ import annotations

import threading

from dsim import canon, workload as W, worldb
from dsim.base import CheckBase, draw_sched_config
from dsim.history import RESULT_LISTS

STATE_OBSERVABLES = {'metrics_by_handle': 'metric', 'alert_by_handle': 'alert', 'component_by_handle': 'component',
                     'context_by_handle': 'context', 'operation_by_handle': 'operational',
                     'waveform_by_handle': 'rt'}
RESULT_KIND = {'metric_updates': 'metric', 'alert_updates': 'alert', 'comp_updates': 'component',
               'ctxt_updates': 'context', 'op_updates': 'operational', 'rt_updates': 'rt'}


def expected_entities(tr):
    """(kind, descriptor handle, state handle) of everything a transaction result names"""
    out = set()
    for n in ('descr_created', 'descr_updated', 'descr_deleted'):
        for d in getattr(tr, n):
            out.add((n, d.Handle, None))
    for n, kind in RESULT_KIND.items():
        for st in getattr(tr, n):
            out.add(('state', st.DescriptorHandle, st.Handle if st.is_context_state else None))
    return out


class NotifyRecorder:
    """records what the consumer MDIB tells the application between two quiescent points"""

    def __init__(self, cmdib, sched):
        from sdc11073 import observableproperties as op
        self.s = sched
        self.seen = set()
        self.dmr_seen = set()
        self.calls = 0
        for name in STATE_OBSERVABLES:
            op.strongbind(cmdib, **{name: self._mk_state_cb(name)})
        op.strongbind(cmdib, new_descriptors_by_handle=self._mk_descr_cb('descr_created'))
        op.strongbind(cmdib, updated_descriptors_by_handle=self._mk_descr_cb('descr_updated'))
        op.strongbind(cmdib, deleted_descriptors_by_handle=self._mk_descr_cb('descr_deleted'))
        op.strongbind(cmdib, description_modifications=self._on_dmr)

    def _mk_state_cb(self, name):
        def cb(d):
            if not d:
                return
            self.calls += 1
            for st in d.values():
                self.seen.add(('state', st.DescriptorHandle, st.Handle if st.is_context_state else None))
        return cb

    def _mk_descr_cb(self, kind):
        def cb(d):
            if not d:
                return
            self.calls += 1
            for descr in d.values():
                self.seen.add((kind, descr.Handle, None))
        return cb

    def _on_dmr(self, report):
        if report is None:
            return
        for part in report.ReportPart:
            for st in part.State:
                self.dmr_seen.add(('state', st.DescriptorHandle, st.Handle if st.is_context_state else None))

    def take(self):
        r = self.seen | self.dmr_seen
        self.seen = set()
        self.dmr_seen = set()
        return r


class C01(CheckBase):
    id = 'C01'
    level = 'exploration'
    line_allow = ('sdc11073/mdib/consumermdib', 'sdc11073/consumer/', 'sdc11073/provider/subscriptionmgr')
    rule = ('one evaluation = one simulated provider+consumer session (real SdcProvider, SdcConsumer, ConsumerMdib, HTTP '
            'stacks over the simulated network, fault-free delivery) with 5-30 seeded provider transactions of every kind '
            'from 1-2 writer tasks; after every round the canonical consumer MDIB must equal the provider history entry '
            'and the raised notifications must name exactly the changed entities; non-trivial = >= 3 commits mirrored '
            'and at least one scheduler pre-emption; distinct = distinct event-log digest')
    components = {'real': ['SdcProvider', 'ProviderMdib', 'subscription managers (sync/async)', 'port types',
                           'msgfactory/msgreader incl. schema validation', 'SoapClient', 'SoapClientAsync (all but session)',
                           'http.client', 'http.server', 'socketserver', 'HttpServerThreadBase', 'SdcConsumer',
                           'ConsumerMdib', 'deferred dispatcher', 'consumer subscription manager'],
                  'stub': ['sockets/selectors (simulated tcp)', 'aiohttp.ClientSession (fake session)',
                           'WS-Discovery (recording stub)']}
    assumptions = ['delivery is fault-free and in emission order (C06 covers faults)',
                   'role providers of the tutorial are not installed (pure MDIB mirror)']
    expected_probes = ['rounds', 'commits', 'descr_ops', 'context_ops', 'init_under_load']
    max_steps = 6_000_000

    def budget(self, tier):
        return {'quick': {'runs': 250, 'wall': 80}, 'thorough': {'runs': 12000, 'wall': 1800}}[tier]

    def generate(self, rng, tier):
        cfg = worldb.draw_config(rng, periodic=None, contextstates_in_getmdib=rng.choice([None, None, False]))
        g = W.Gen(rng, cfg['mdib'], validate=True)
        n = rng.randint(5, 30 if tier == 'thorough' else 14)
        writers = rng.choice([1, 1, 1, 2])
        rounds = []
        ops_left = n
        while ops_left > 0:
            k = 1 if writers == 1 else rng.randint(1, 4)
            batch = []
            for _ in range(k):
                op = g.gen_op()
                if op is None:
                    continue
                op['w'] = rng.randrange(writers)
                batch.append(op)
            ops_left -= k
            if batch:
                rounds.append(batch)
        ops = []
        for i, b in enumerate(rounds):
            for op in b:
                op['round'] = i
                ops.append(op)
        return {'sched': draw_sched_config(rng), 'world': cfg, 'writers': writers, 'ops': ops,
                'location': rng.random() < 0.5, 'init_race': rng.random() < 0.3}

    def body(self, ctx):
        plan = ctx.plan
        s = ctx.s
        w = worldb.WorldB(ctx, plan['world'])
        w.start_provider(role_components=None)
        if plan.get('location'):
            from sdc11073.location import SdcLocation
            with worldb.node(worldb.PROVIDER_IP):
                w.provider.set_location(SdcLocation(fac='f1', poc='p1', bed='b&1', bldng='h/1'), publish_now=False)
        rounds = {}
        for op in plan['ops']:
            rounds.setdefault(op.get('round', op['id']), []).append(op)
        if plan.get('init_race') and len(rounds) > 1:
            # the consumer initialises its MDIB while the provider is committing; a handler thread that has just released
            # the MDIB lock may be stalled (the window between collecting an answer and labelling / sending it)
            ctx.probe('init_under_load')
            batch0 = rounds.pop(sorted(rounds)[0])
            s.stall_after(w.mdib.mdib_lock, 0.3, (0.002, 0.008))
            box = []
            th = threading.Thread(target=lambda: box.append(w.start_consumer(0)), name='init_mdib')
            th.start()
            with worldb.node(worldb.PROVIDER_IP):
                for op in batch0:
                    s.reseed('op', op['id'])
                    try:
                        W.apply_op(w.mdib, op)
                    except W.OpRejected:
                        ctx.probe('rejected')
                    s.sleep(0.003)
            th.join()
            s.stall_after_locks.clear()
            if not box:
                raise RuntimeError(f'consumer start failed: {s.escaped[:1]}')
            c, cm = box[0]
            w.settle(5.0)
        else:
            c, cm = w.start_consumer(0)
        rec = NotifyRecorder(cm, s)
        hist = w.hist
        self._compare(ctx, w, cm, 'initial', None)
        for rnd in sorted(rounds):
            batch = rounds[rnd]
            v_before = w.mdib.mdib_version

            def writer(wi, batch=batch):
                with worldb.node(worldb.PROVIDER_IP):
                    for op in batch:
                        if op.get('w', 0) != wi:
                            continue
                        s.reseed('op', op['id'])
                        try:
                            W.apply_op(w.mdib, op)
                        except W.OpRejected:
                            ctx.probe('rejected')
                        if op['k'] == 'descr':
                            ctx.probe('descr_ops')
                        elif op['k'] == 'context':
                            ctx.probe('context_ops')

            ws = sorted({op.get('w', 0) for op in batch})
            if len(ws) == 1:
                writer(ws[0])
            else:
                ths = [threading.Thread(target=writer, args=(wi,), name=f'w{wi}') for wi in ws]
                for t in ths:
                    t.start()
                for t in ths:
                    t.join()
            ok = w.settle(5.0)
            ctx.probe('rounds')
            if not ok:
                ctx.violation('C01.progress', 'no-quiescence',
                              'consumer did not become idle within 5 virtual seconds after fault-free delivery')
            v_after = w.mdib.mdib_version
            ctx.probe('commits', v_after - v_before)
            self._compare(ctx, w, cm, f'round {rnd}', batch)
            # notifications
            expected = set()
            for v in range(v_before + 1, v_after + 1):
                tr = hist.raw_results.get(v)
                if tr is not None:
                    expected |= expected_entities(tr)
            got = rec.take()
            if got != expected:
                missing = sorted(expected - got, key=str)[:5]
                extra = sorted(got - expected, key=str)[:5]
                kind = 'missing' if missing else 'extra'
                what = (missing or extra)[0]
                ctx.violation('C01.notify', f'{kind}:{what[0]}:{"context" if what[2] else "single"}',
                              f'notifications raised by the consumer MDIB for MdibVersions {v_before + 1}..{v_after} '
                              f'do not name exactly the changed entities: missing={missing} extra={extra}')
        ctx.nontrivial = (w.mdib.mdib_version - hist.initial_version) >= 3
        if s.escaped:
            ctx.violation('C01.mirror', 'exception-in-library-thread', str(s.escaped[:2]))

    def _compare(self, ctx, w, cm, where, batch):
        with ctx.s.no_preempt():
            a = w.hist.hist.get(w.mdib.mdib_version)
            if a is None:
                a = canon.snap(w.mdib)
            b = canon.snap(cm)
        if a != b:
            d = canon.diff(a, b)
            first = d[0].split(':')[0] if d else ''
            parts = [p for p in first.split('/') if p]
            sig = parts[0] if parts else 'group'
            if len(parts) >= 3:
                sig += ':' + '/'.join(x for x in parts[2:] if not x.startswith('['))[:60]
            elif parts and parts[0] == 'group':
                sig = 'group'
            ctx.violation('C01.mirror', sig,
                          f'{where}: consumer MDIB differs from provider MDIB at MdibVersion {w.mdib.mdib_version} '
                          f'(left=provider, right=consumer): {d[:6]}')
        p = canon.audit_mdib(cm, 'consumer')
        if p:
            ctx.violation('C01.mirror', 'consumer-lookups', f'{where}: {p[:3]}')


CHECK = C01()
