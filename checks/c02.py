"""C02 - MDIB version counters are monotonic, gap-free and referentially consistent (world A)."""
from __future__ import annotations

import threading

from dsim import canon, workload as W
from dsim.base import CheckBase, draw_sched_config
from dsim.history import History, check_version_rules


class C02(CheckBase):
    id = 'C02'
    level = 'exploration'
    line_allow = ('sdc11073/mdib/', 'sdc11073/multikey.py')
    rule = ('one evaluation = one simulated run: a seeded history of 8-60 provider transactions (all kinds, classic and '
            'entity interface, combinations on related objects, empty / aborted / rejected ones) executed by 1-4 writer '
            'tasks under a seeded scheduler; non-trivial = at least one scheduler pre-emption happened or >=2 writers; '
            'distinct = distinct event-log digest (folds every scheduling decision)')
    components = {'real': ['ProviderMdib', 'transactions', 'mdibbase', 'multikey', 'containers', 'xml_types',
                           'MessageReader (MDIB file)'], 'stub': []}
    assumptions = ['CPython GIL semantics; pre-emption only at synchronisation points and (sampled) Python lines of '
                   'sdc11073/mdib and multikey.py', 'canonical snapshots walk the library\'s own _props metadata']
    expected_probes = ['commits', 'aborted', 'empty', 'recreate', 'stale_entity_writes']

    def budget(self, tier):
        return {'quick': {'runs': 1200, 'wall': 70}, 'thorough': {'runs': 40000, 'wall': 1200}}[tier]

    def generate(self, rng, tier):
        which = rng.choice(['tns', 'tns', 'two'])
        g = W.Gen(rng, which, validate=False)
        g.p_stale = rng.choice([0.0, 0.2, 0.5])
        n = rng.randint(8, 60 if tier == 'thorough' else 35)
        writers = rng.choice([1, 1, 2, 3, 4])
        ops = []
        for _ in range(n):
            op = g.gen_op(p_abort=0.12)
            if op is None:
                continue
            op['w'] = rng.randrange(writers)
            ops.append(op)
        return {'sched': draw_sched_config(rng), 'mdib': which, 'writers': writers, 'ops': ops}

    def body(self, ctx):
        plan = ctx.plan
        s = ctx.s
        mdib = W.load_mdib(plan['mdib'])
        hist = History(mdib, s, keep_results=False)
        nonempty_expected = [0]
        lock_stats = {'rejected': 0, 'aborted': 0}

        def after_commit_checks(v, tr, empty):
            if empty:
                return
            r = canon.referential_integrity_ex(mdib)
            if r:
                kind, h, _ = r[0]
                deleted = {d.Handle for d in tr.descr_deleted}
                sig = kind
                if kind == 'orphan-descriptor':
                    d = mdib.descriptions.handle.get_one(h, allow_none=True)
                    h = d.parent_handle if d is not None else h
                if kind.startswith('orphan') and h in deleted:
                    # the same transaction deleted the descriptor (sub-tree) and created / updated something inside it
                    sig = kind + ':touched-inside-subtree-deleted-by-same-transaction'
                hist.problems.append(('refint', sig, f'at MdibVersion {v}: {[t for _, _, t in r[:4]]}'))

        hist.on_commit = after_commit_checks

        def writer(w):
            cache = {}
            for op in plan['ops']:
                if op.get('w', 0) != w:
                    continue
                s.reseed('op', op['id'])
                env = W.Env(crash_at=op.get('abort_at'), cache=cache)
                try:
                    W.apply_op(mdib, op, env)
                except W.OpRejected:
                    lock_stats['rejected'] += 1
                    ctx.probe('rejected')
                except W.InjectedCrash:
                    lock_stats['aborted'] += 1
                    ctx.probe('aborted')
                if env.stale_used:
                    ctx.probe('stale_entity_writes', env.stale_used)
                if env.stale_outdated:
                    ctx.probe('stale_entity_outdated_descriptor_version', env.stale_outdated)

        nw = plan['writers']
        if nw == 1:
            writer(0)
        else:
            ths = [threading.Thread(target=writer, args=(i,), name=f'w{i}') for i in range(nw)]
            for t in ths:
                t.start()
            for t in ths:
                t.join()
            ctx.nontrivial = True
        # ---------- verdicts
        for clause, sig, detail in hist.problems:
            ctx.violation(f'C02.{clause}', sig, detail)
        nonempty = sum(1 for _, _, e in hist.commits if not e)
        ctx.probe('commits', nonempty)
        ctx.probe('empty', hist.empty_commits)
        if mdib.mdib_version != hist.initial_version + nonempty:
            ctx.violation('C02.mdibversion', 'final-version',
                          f'final MdibVersion {mdib.mdib_version} != initial {hist.initial_version} + {nonempty} '
                          f'non-empty commits')
        versions = [v for v, _, e in hist.commits if not e]
        if versions != list(range(hist.initial_version + 1, hist.initial_version + 1 + len(versions))):
            ctx.violation('C02.mdibversion', 'gap-or-duplicate', f'commit versions {versions[:40]}')
        if any(op['k'] == 'descr' and any(st['a'] == 'create' and not st['h'].startswith('new') for st in op['steps'])
               for op in plan['ops']):
            ctx.probe('recreate')
        for clause, sig, detail in check_version_rules(hist.hist):
            ctx.violation(f'C02.{clause}', sig, detail)
        r = canon.referential_integrity(mdib)
        if r:
            ctx.violation('C02.refint', 'final', str(r[:4]))
        if mdib.current_transaction is not None:
            ctx.violation('C02.mdibversion', 'transaction-left-open', 'current_transaction not cleared')
        ctx.stats['ops'] = len(plan['ops'])


CHECK = C02()
