"""C03 - transactions are atomic and the data they hand out is isolated from the MDIB (world A).

Per generated history every operation is executed k+1 times: once with an injected exception at each of its k
crash points (the MDIB must be untouched, so the same pre-state serves the next crash point), with a raising
pre_commit_handler, with API-rejected calls appended to its body, and finally for real. Between the steps the objects
handed out by the library are written through at random nested paths (isolation probes).
"""
from __future__ import annotations

import copy
import random

from dsim import canon, values as V, workload as W
from dsim.base import CheckBase, draw_sched_config
from dsim.history import History, result_summary, RESULT_LISTS

BAD_CALLS = ('get_twice', 'wrong_type', 'unknown_handle', 'mk_existing_ctx', 'add_existing_ctx_state',
             'add_existing_descr', 'remove_unknown_descr', 'get_state_without_descr', 'write_entity_twice', 'add_existing_single_state',
             'add_ctx_state_foreign_handle', 'entity_ctx_state_foreign_handle', 'write_entities_mixed_caught')


class PreCommitBoom(Exception):
    pass


def snap_all(mdib):
    s = canon.snap(mdib)
    s['sizes'] = (len(mdib.descriptions.objects), len(mdib.states.objects), len(mdib.context_states.objects))
    # version counters the MDIB remembers for deleted handles (a later re-creation continues from them)
    s['remembered_versions'] = {name: dict(getattr(mdib, name).handle_version_lookup)
                                for name in ('descriptions', 'states', 'context_states')}
    return s


class C03(CheckBase):
    id = 'C03'
    level = 'fault_enumeration'
    rule = ('one evaluation = one simulated run over a seeded transaction history (6-30 operations); for EVERY operation '
            'EVERY crash point of its transaction body is injected (exception after step j=0..k), plus a raising '
            'pre_commit_handler, plus one API-rejected call variant, plus nested-path writes through every object '
            'handed out (transaction getters, entity getters, transaction results, periodic-report store); '
            'non-trivial = at least one crash point and one isolation probe executed; distinct = distinct event-log '
            'digest + plan digest')
    components = {'real': ['ProviderMdib', 'transactions', 'mdibbase', 'multikey', 'containers',
                           'PeriodicReportsHandler (store)'], 'stub': ['report sending (captured at the transaction observable)']}
    assumptions = ['crash points are the boundaries between API calls of the generated transaction body',
                   'post-commit state of a failed commit is judged against the transaction\'s own item list']
    expected_probes = ['crash_points', 'precommit_raise', 'bad_calls', 'iso_tx', 'iso_entity', 'iso_result',
                       'iso_periodic', 'commits', 'iso_entity_updated', 'refusal_caught_in_body']
    exhaustive = None

    def budget(self, tier):
        return {'quick': {'runs': 400, 'wall': 80}, 'thorough': {'runs': 12000, 'wall': 1500}}[tier]

    def generate(self, rng, tier):
        which = rng.choice(['tns', 'tns', 'two'])
        g = W.Gen(rng, which, validate=False)
        n = rng.randint(6, 30 if tier == 'thorough' else 16)
        ops = []
        for _ in range(n):
            op = g.gen_op()
            if op is None:
                continue
            op['bad'] = rng.choice(BAD_CALLS)
            op['probe_seed'] = rng.getrandbits(32)
            op['precommit'] = rng.random() < 0.5
            ops.append(op)
        cfg = draw_sched_config(rng, line_ok=False)
        return {'sched': cfg, 'mdib': which, 'ops': ops}

    # ------------------------------------------------------------------
    def body(self, ctx):
        plan = ctx.plan
        s = ctx.s
        mdib = W.load_mdib(plan['mdib'])
        from sdc11073.provider.periodicreports import PeriodicReportsHandler
        periodic = PeriodicReportsHandler(mdib, None)
        reports = []  # observer calls (any, incl. empty)
        published = []  # [raw result, summary]
        periodic_model = []  # (list name, index, version, summaries)

        def on_commit(v, tr, empty):
            reports.append(v)
            if empty:
                return
            published.append([tr, result_summary(tr)])
            for lst, fn in (('metric_updates', periodic.store_metric_states), ('alert_updates', periodic.store_alert_states),
                            ('comp_updates', periodic.store_component_states), ('ctxt_updates', periodic.store_context_states),
                            ('op_updates', periodic.store_operational_states)):
                ups = getattr(tr, lst)
                if ups:
                    fn(v, ups)

        hist = History(mdib, s, keep_results=False, on_commit=on_commit)

        def expect_unchanged(pre, what, op, nrep):
            post = snap_all(mdib)
            if post != pre:
                d = canon.diff(pre, post)
                ctx.violation('C03.atomic', f'{what}:{op["k"]}:{op.get("tt", "")}:{op.get("iface", "")}',
                              f'{what}: MDIB changed although the transaction did not commit: {d[:5]}')
            if len(reports) != nrep:
                ctx.violation('C03.noreport', f'{what}:{op["k"]}', f'{what}: a transaction result was published '
                                                                  f'although the transaction failed')
            a = canon.audit_mdib(mdib)
            if a:
                ctx.violation('C03.atomic', f'{what}:lookups:{op["k"]}', f'{what}: lookups inconsistent: {a[:3]}')
            if mdib.current_transaction is not None:
                ctx.violation('C03.usable', f'{what}', 'current_transaction not cleared after failure')

        def check_published(where):
            for entry in published:
                now = result_summary(entry[0])
                if now != entry[1]:
                    d = canon.diff(entry[1], now)
                    entry[1] = now  # report once
                    ctx.violation('C03.published', f'{where}', f'an already published transaction result changed '
                                                              f'({where}): {d[:4]}')

        def check_periodic(where):
            lists = {'metric': periodic._periodic_metric_reports, 'alert': periodic._periodic_alert_reports,
                     'comp': periodic._periodic_component_state_reports,
                     'ctxt': periodic._periodic_context_state_reports,
                     'op': periodic._periodic_operational_state_reports}
            for name, lst in lists.items():
                for ps in lst:
                    ref = hist.hist.get(ps.mdib_version)
                    if ref is None:
                        continue
                    for st in ps.states:
                        key = st.Handle if st.is_context_state else st.DescriptorHandle
                        table = 'context' if st.is_context_state else 'states'
                        want = ref[table].get(key)
                        got = canon.canon(st)
                        if want is not None and got != want:
                            d = canon.diff(want, got)
                            ctx.violation('C03.published', f'periodic-store:{where}',
                                          f'state {key} stored for periodic report of MdibVersion {ps.mdib_version} '
                                          f'no longer shows that version\'s values: {d[:4]}')

        kept = []  # entities the application keeps across transactions and refreshes with Entity.update()
        for op in plan['ops']:
            s.reseed('op', op['id'])
            prng = random.Random(op['probe_seed'])
            pre = snap_all(mdib)
            nrep = len(reports)
            k = W.body_steps(op)
            # (a) every crash point
            for j in range(k):
                env = W.Env(crash_at=j)
                try:
                    W.apply_op(mdib, op, env)
                    # body shorter than expected (rejected early) is fine; a commit is not
                    ctx.violation('C03.atomic', 'crash-point-not-reached', f'op committed although crash point {j} '
                                                                           f'should have fired', stop=True)
                except W.InjectedCrash:
                    ctx.probe('crash_points')
                except W.OpRejected:
                    ctx.probe('rejected')
                    break
                expect_unchanged(pre, f'crash@{j}', op, nrep)
            # (b) raising pre_commit_handler
            if op.get('precommit'):
                def boom(_mdib, _tr):
                    raise PreCommitBoom
                mdib.pre_commit_handler = boom
                try:
                    W.apply_op(mdib, op, W.Env())
                except PreCommitBoom:
                    ctx.probe('precommit_raise')
                except W.OpRejected:
                    pass
                finally:
                    mdib.pre_commit_handler = None
                expect_unchanged(pre, 'pre_commit_handler-raises', op, nrep)
            # (c) API-rejected call appended to the body
            if self._bad_call(ctx, mdib, op, pre, nrep, reports, expect_unchanged) == 'committed':
                ctx.probe('bad_call_accepted')
                ctx.probe('bad_call_accepted:' + str(op.get('bad')))
                check_published('after-commit')
                continue
            # (d) isolation probe on transaction getter objects: write through them, then abort
            handed = []
            env = W.Env(crash_at=k - 1 if k > 1 else 0, on_handout=lambda kind, o: handed.append((kind, o)))
            try:
                W.apply_op(mdib, op, env)
            except (W.InjectedCrash, W.OpRejected):
                pass
            for kind, o in handed:
                mut = V.gen_mutation(o, prng, prefer_nested=0.9)
                if mut is None:
                    continue
                try:
                    V.set_path(o, mut[0], V.dec(mut[1]))
                except Exception:  # noqa: BLE001
                    continue
                ctx.probe('iso_tx' if kind.startswith('tx') else 'iso_entity')
                post = snap_all(mdib)
                if post != pre:
                    d = canon.diff(pre, post)
                    ctx.violation('C03.private', f'{kind}:{".".join(str(p) for p in mut[0] if not isinstance(p, int))}',
                                  f'writing {mut[0]} of an object handed out by the transaction ({kind}) changed the '
                                  f'MDIB without commit: {d[:4]}')
                check_published(f'write-through-{kind}')
            # (e) the real commit
            committed = False
            try:
                W.apply_op(mdib, op, W.Env())
                committed = True
            except W.OpRejected:
                expect_unchanged(pre, 'rejected', op, nrep)
            if committed and len(reports) > nrep:
                ctx.probe('commits')
            check_published('after-commit')
            check_periodic('after-commit')
            post = snap_all(mdib)
            # (f) entity getter isolation: fresh entities, and entities the application kept and refreshes with update()
            handles = sorted(post['descriptors'])
            cands = []
            fresh_states = {}
            for e_old in prng.sample(kept, min(4, len(kept))):
                had = set(e_old.states) if e_old.is_multi_state else None
                try:
                    e_old.update()
                    cands.append((e_old, 'entity-update'))
                    if had is not None:
                        fresh_states[id(e_old)] = sorted(set(e_old.states) - had)  # states the entity learned just now
                except (KeyError, ValueError):
                    kept.remove(e_old)  # the descriptor (or its state) was deleted meanwhile
            # context entities first: multi-state entities have the richer update() logic
            ctx_handles = sorted({st.DescriptorHandle for st in mdib.context_states.objects} & set(handles))
            for i_ in range(2):
                h = prng.choice(ctx_handles if (ctx_handles and i_ == 0 and prng.random() < 0.5) else handles)
                try:
                    ent = mdib.entities.by_handle(h)
                except KeyError:
                    continue  # descriptor without state: the entity getter cannot build an entity for it
                if ent is None:
                    continue
                cands.append((ent, 'entity-getter'))
                if len(kept) < 10 and prng.random() < 0.8:
                    try:
                        kept.append(mdib.entities.by_handle(h))  # a second, untouched entity for a later update()
                    except KeyError:
                        pass
            for ent, how in cands:
                targets = [ent.descriptor] + (list(ent.states.values()) if ent.is_multi_state else [ent.state])
                o = prng.choice(targets)
                if fresh_states.get(id(ent)) and prng.random() < 0.8:
                    o = ent.states[prng.choice(fresh_states[id(ent)])]
                    ctx.probe('iso_entity_updated_new_state')
                mut = V.gen_mutation(o, prng, prefer_nested=0.9)
                if mut is None:
                    continue
                try:
                    V.set_path(o, mut[0], V.dec(mut[1]))
                except Exception:  # noqa: BLE001
                    continue
                ctx.probe('iso_entity' if how == 'entity-getter' else 'iso_entity_updated')
                now = snap_all(mdib)
                if now != post:
                    d = canon.diff(post, now)
                    ctx.violation('C03.private', f'{how}:{".".join(str(p) for p in mut[0] if not isinstance(p, int))}',
                                  f'writing {mut[0]} of an entity obtained from mdib.entities '
                                  f'{"and refreshed with update() " if how != "entity-getter" else ""}changed the MDIB: {d[:4]}')
                if how != 'entity-getter' and ent in kept:
                    kept.remove(ent)  # it now differs from the MDIB on purpose
            # (g) write through the latest published result: the MDIB, earlier results and the periodic store stay
            if published and prng.random() < 0.7:
                tr, _summ = published[-1]
                objs = [c for n in RESULT_LISTS for c in getattr(tr, n)]
                if objs:
                    o = prng.choice(objs)
                    mut = V.gen_mutation(o, prng, prefer_nested=0.9)
                    if mut is not None:
                        try:
                            V.set_path(o, mut[0], V.dec(mut[1]))
                            ok = True
                        except Exception:  # noqa: BLE001
                            ok = False
                        if ok:
                            ctx.probe('iso_result')
                            published[-1][1] = result_summary(tr)  # we changed it ourselves
                            now = snap_all(mdib)
                            if now != post:
                                d = canon.diff(post, now)
                                ctx.violation('C03.private', f'transaction-result:{".".join(str(p) for p in mut[0] if not isinstance(p, int))}',
                                              f'writing {mut[0]} of an object in a TransactionResult changed the MDIB: {d[:4]}')
                            check_published('write-through-result')
                            ctx.probe('iso_periodic')
                            check_periodic('write-through-result')
        ctx.nontrivial = bool(ctx.probes.get('crash_points')) and bool(ctx.probes.get('iso_entity'))
        import hashlib
        import json
        ctx.stats['distinct_key'] = s.digest() + hashlib.blake2b(json.dumps(plan['ops'], sort_keys=True).encode(),
                                                                 digest_size=8).hexdigest()

    # ------------------------------------------------------------------
    def _bad_call(self, ctx, mdib, op, pre, nrep, reports, expect_unchanged):
        from sdc11073.exceptions import ApiUsageError
        variant = op.get('bad')
        k = op['k']
        fired = []
        caught = []  # [handle the refused call must not have touched] for variants that swallow the refusal in the body

        def hook(mgr):
            pm = mdib.data_model.pm_names
            if variant == 'get_twice' and k == 'state' and op.get('iface') == 'classic':
                fired.append(1)
                mgr.get_state(op['items'][0]['h'])
            elif variant == 'wrong_type' and k == 'state':
                other = [st for st in mdib.states.objects if W.tt_of_state(st) not in (op['tt'], None)]
                if other:
                    fired.append(1)
                    mgr.get_state(sorted(other, key=lambda st: st.DescriptorHandle)[0].DescriptorHandle)
            elif variant == 'unknown_handle' and k in ('state', 'descr'):
                fired.append(1)
                if k == 'state':
                    mgr.get_state('no.such.handle')
                else:
                    mgr.get_descriptor('no.such.handle')
            elif variant == 'mk_existing_ctx' and k == 'context':
                ex = sorted(mdib.context_states.objects, key=lambda st: st.Handle)
                if ex:
                    fired.append(1)
                    mgr.mk_context_state(ex[0].DescriptorHandle, ex[0].Handle)
            elif variant == 'add_existing_ctx_state' and k == 'context':
                ex = sorted(mdib.context_states.objects, key=lambda st: st.Handle)
                if ex:
                    fired.append(2)
                    d = mdib.descriptions.handle.get_one(ex[0].DescriptorHandle)
                    st = mdib.data_model.mk_state_container(d)
                    st.Handle = ex[0].Handle
                    mgr.add_state(st)
            elif variant in ('add_ctx_state_foreign_handle', 'entity_ctx_state_foreign_handle') and k == 'context':
                # a new context state that reuses the handle of a context state of ANOTHER descriptor
                ex = sorted(mdib.context_states.objects, key=lambda st: st.Handle)
                others = [d for d in sorted(mdib.descriptions.objects, key=lambda d: d.Handle) if d.is_context_descriptor
                          and ex and d.Handle != ex[0].DescriptorHandle and d.Handle not in
                          {it.new.DescriptorHandle for it in mgr.context_state_updates.values() if it.new is not None}]
                if ex and others:
                    fired.append(2)
                    if variant == 'add_ctx_state_foreign_handle' or op.get('iface') != 'entity':
                        st = mdib.data_model.mk_state_container(others[0])
                        st.Handle = ex[0].Handle
                        mgr.add_state(st)
                    else:
                        ent = mdib.entities.by_handle(others[0].Handle)
                        ent.new_state(ex[0].Handle)
                        mgr.write_entity(ent, [ex[0].Handle])
            elif variant == 'write_entities_mixed_caught' and k == 'state':
                # the application hands write_entities a list whose LAST element is unacceptable, catches the refusal and
                # goes on: the call as a whole has to be without effect (the acceptable first element is not committed)
                mine = {it['h'] for it in op['items']}
                good = [st for st in sorted(mdib.states.objects, key=lambda st: st.DescriptorHandle)
                        if W.tt_of_state(st) == op['tt'] and st.DescriptorHandle not in mine]
                bad = [st for st in sorted(mdib.states.objects, key=lambda st: st.DescriptorHandle)
                       if W.tt_of_state(st) not in (op['tt'], None)]
                if good and bad:
                    e_good = mdib.entities.by_handle(good[0].DescriptorHandle)
                    e_bad = mdib.entities.by_handle(bad[0].DescriptorHandle)
                    fired.append(3)
                    caught.append(good[0].DescriptorHandle)
                    try:
                        mgr.write_entities([e_good, e_bad])
                        caught.append('ACCEPTED')
                    except ApiUsageError:
                        pass
            elif variant == 'add_existing_descr' and k == 'descr':
                d = sorted(mdib.descriptions.objects, key=lambda x: x.Handle)[0]
                fired.append(1)
                mgr.add_descriptor(copy.deepcopy(d))
            elif variant == 'remove_unknown_descr' and k == 'descr':
                fired.append(1)
                mgr.remove_descriptor('no.such.handle')
            elif variant == 'get_state_without_descr' and k == 'descr':
                hs = sorted(st.DescriptorHandle for st in mdib.states.objects
                            if st.DescriptorHandle not in mgr.descriptor_updates)
                if hs:
                    fired.append(1)
                    mgr.get_state(hs[0])
            elif variant == 'add_existing_single_state' and k == 'descr':
                hs = sorted(h for h, it in mgr.descriptor_updates.items() if it.new is not None and it.old is not None
                            and not it.new.is_context_descriptor
                            and mdib.states.descriptor_handle.get_one(h, allow_none=True) is not None
                            and mgr.get_state_transaction_item(h) is None)
                if hs:
                    fired.append(2)
                    st = mdib.data_model.mk_state_container(mgr.descriptor_updates[hs[0]].new)
                    mgr.add_state(st)
            elif variant == 'write_entity_twice' and k == 'descr' and op.get('iface') == 'entity':
                st0 = op['steps'][0]
                if st0['a'] == 'update':
                    ent = mdib.entities.by_handle(st0['h'])
                    if ent is not None:
                        fired.append(1)
                        mgr.write_entity(ent)

        def hook2(mgr):
            hook(mgr)
            if not fired:
                raise W.InjectedCrash('bad-call variant not applicable')

        env = W.Env()
        env.pre_commit = hook2
        rejected = False
        commit_failed = None
        try:
            W.apply_op(mdib, op, env)
        except W.OpRejected:
            rejected = True
        except W.InjectedCrash:
            expect_unchanged(pre, 'crash@end', op, nrep)
            return None
        except (KeyError, ValueError, ApiUsageError) as ex:
            commit_failed = ex
        if not fired:
            if rejected:
                expect_unchanged(pre, 'rejected', op, nrep)
            return None
        ctx.probe('bad_calls')
        if caught and not rejected and commit_failed is None:
            ctx.probe('refusal_caught_in_body')
            h = caught[0]
            now = snap_all(mdib)
            if 'ACCEPTED' not in caught and now['states'].get(h) != pre['states'].get(h):
                d = canon.diff(pre['states'].get(h), now['states'].get(h))
                ctx.violation('C03.atomic', f'refused-call-had-effect:{variant}',
                              f'write_entities([{h}, <entity of another transaction type>]) raised ApiUsageError, the '
                              f'application caught it and committed the rest - but {h} was committed too: {d[:4]}')
            return 'committed'
        if rejected:
            expect_unchanged(pre, f'api-rejected:{variant}', op, nrep)
        elif commit_failed is not None:
            ctx.probe('commit_failed')
            expect_unchanged(pre, f'commit-failed:{variant}', op, nrep)
        else:
            # the API accepted the call (e.g. a variant the library tolerates): nothing to demand here
            return 'committed'
        return None


CHECK = C03()
