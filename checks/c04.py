"""C04 - reports are complete, truthful, schema-valid and delivered in version order (world B, recording subscribers,
1-4 concurrent writers, single- and multi-MDS, sync and async subscription managers, optional periodic reports)."""
from __future__ import annotations

import threading

from lxml import etree

from dsim import canon, peers, workload as W, worldb, xsd
from dsim.base import CheckBase, draw_sched_config
from dsim.history import strip_versions, version_of
from dsim.xsd import NS

EPISODIC = {'EpisodicMetricReport': 'metric_updates', 'EpisodicAlertReport': 'alert_updates',
            'EpisodicComponentReport': 'comp_updates', 'EpisodicOperationalStateReport': 'op_updates',
            'EpisodicContextReport': 'ctxt_updates', 'Waveform': 'rt_updates'}
PERIODIC = ('PeriodicMetricReport', 'PeriodicAlertReport', 'PeriodicComponentReport',
            'PeriodicOperationalStateReport', 'PeriodicContextReport')
SUB_IPS = ['10.0.1.1', '10.0.1.2', '10.0.1.3']


def mds_of(snap, handle):
    seen = set()
    while handle is not None and handle not in seen:
        seen.add(handle)
        d = snap['descriptors'].get(handle)
        if d is None:
            return None
        if d.get('@parent') is None:
            return handle
        handle = d['@parent']
    return None


class C04(CheckBase):
    id = 'C04'
    level = 'exploration'
    line_allow = ('sdc11073/mdib/providermdib.py', 'sdc11073/provider/providerimpl.py',
                  'sdc11073/provider/subscriptionmgr', 'sdc11073/provider/porttypes/')
    rule = ('one evaluation = one simulated provider session with 1-3 scripted recording subscribers (random action '
            'filters) and 1-4 writer tasks executing 8-40 seeded transactions concurrently; every received message is '
            'validated against the bundled XSDs and compared with the commit-time history (version group, exact set of '
            'descriptors/states with values and counters, SourceMds grouping, one report per category per commit, '
            'non-decreasing MdibVersion, periodic copies vs. the version they are labelled with); non-trivial = >= 2 '
            'writers or a scheduler pre-emption; distinct = distinct event-log digest')
    components = {'real': ['SdcProvider', 'ProviderMdib', 'subscription managers (sync/async, path/reference-parameter)',
                           'state/description/context/waveform port types', 'PeriodicReportsHandler', 'msgfactory (+schema '
                           'validation)', 'SoapClient / SoapClientAsync (all but session)', 'http.client'],
                  'stub': ['subscribers (scripted recording endpoints)', 'sockets', 'aiohttp session', 'WS-Discovery stub']}
    assumptions = ['wire elements are parsed with the library\'s container classes before they are canonicalised '
                   '(serialiser/parser round trip itself is C05, not claimed)']
    expected_probes = ['reports_checked', 'multi_writer_runs', 'periodic_reports', 'description_reports',
                       'multi_mds_parts', 'late_subscribers']
    max_steps = 6_000_000

    def budget(self, tier):
        return {'quick': {'runs': 220, 'wall': 85}, 'thorough': {'runs': 12000, 'wall': 1800}}[tier]

    def generate(self, rng, tier):
        cfg = worldb.draw_config(rng, periodic=rng.choice([None, None, 0.3, 1.0]),
                                 mdib=rng.choice(['tns', 'two', 'two']), max_subscription_duration=7200)
        g = W.Gen(rng, cfg['mdib'], validate=True)
        writers = rng.choice([1, 2, 2, 3, 4])
        n = rng.randint(8, 40 if tier == 'thorough' else 18)
        ops = []
        for _ in range(n):
            op = g.gen_op()
            if op is None:
                continue
            op['w'] = rng.randrange(writers)
            op['pause'] = rng.choice([0, 0, 0, 0.05, 0.4])
            ops.append(op)
        all_actions = list(EPISODIC) + list(PERIODIC) + ['DescriptionModificationReport']
        subs = []
        for i in range(rng.randint(1, 3)):
            k = rng.randint(3, len(all_actions))
            subs.append({'actions': sorted(rng.sample(all_actions, k)) if i else all_actions,
                         'stall': rng.choice([0, 0, 0, 0.02, 0.3, 12.0]), 'gzip': rng.random() < 0.5})
        late = [{'delay': rng.choice([0.0, 0.001, 0.01, 0.05, 0.3])} for _ in range(rng.choice([0, 0, 1, 2, 3]))]
        sched = draw_sched_config(rng)
        if late and rng.random() < 0.7:
            # a sender is descheduled while it selects the subscribers of a report
            sched['line_hot'] = {'_get_subscriptions_for_action': [0.3, [0.001, 0.004, 0.02]],
                                 'matches': [0.15, [0.001, 0.004, 0.02]]}
        return {'sched': sched, 'world': cfg, 'writers': writers, 'ops': ops, 'subs': subs, 'late_subs': late,
                'stall_periodic': rng.choice([0.0, 0.2, 0.5])}

    # ------------------------------------------------------------------
    def body(self, ctx):
        plan = ctx.plan
        s = ctx.s
        w = worldb.WorldB(ctx, plan['world'])
        w.start_provider(role_components=None)
        prov = w.provider
        A = w.mdib.sdc_definitions.Actions
        svc = prov.hosted_services.dpws_hosted_services['StateEvent']
        sub_path = f'/{prov.path_prefix}/{svc.path_element}'
        paddr = (worldb.PROVIDER_IP, prov._http_server.server_port)
        subs = []
        for i, sp in enumerate(plan['subs']):
            stall = sp['stall']
            ep = peers.Endpoint(SUB_IPS[i], f'sub{i}', behaviour=(lambda rec, st=stall: ('stall', st) if st else ('ok',)))
            cl = peers.RawClient(SUB_IPS[i], paddr)
            actions = [getattr(A, a).value for a in sp['actions']]
            body = peers.mk_subscribe(f'http://{paddr[0]}:{paddr[1]}{sub_path}', ep.url(f'/notify{i}'), actions,
                                      expires=3600, msg_id=f'urn:uuid:sub{i}')
            hdr = {'Accept-Encoding': 'gzip'} if sp['gzip'] else {}
            r = peers.SoapResponse(cl.post(sub_path, body, hdr))
            if r.status != 200 or r.is_fault:
                raise RuntimeError(f'subscribe failed: {r.status} {etree.tostring(r.xml)[:300] if r.xml is not None else ""}')
            subs.append((ep, set(actions)))

        def writer(wi):
            with worldb.node(worldb.PROVIDER_IP):
                for op in plan['ops']:
                    if op.get('w', 0) != wi:
                        continue
                    s.reseed('op', op['id'])
                    try:
                        W.apply_op(w.mdib, op)
                    except W.OpRejected:
                        ctx.probe('rejected')
                    except W.InjectedCrash:
                        pass
                    except Exception as ex:  # noqa: BLE001
                        import traceback
                        ctx.violation('C04.complete', f'commit-raised:{type(ex).__name__}',
                                      f'the transaction of operation {op["id"]} raised out of the commit (its reports are not '
                                      f'delivered completely):\n{traceback.format_exc()[-1500:]}')
                    if op.get('pause'):
                        s.sleep(op['pause'])

        late_eps = []

        def late_subscribers():
            # further subscribers join while the writers are committing (the subscription table changes under the senders)
            for j, ls in enumerate(plan.get('late_subs') or []):
                s.sleep(ls['delay'])
                i = len(plan['subs']) + j
                ip = f'10.0.2.{j + 1}'
                ep = peers.Endpoint(ip, f'late{j}')
                cl = peers.RawClient(ip, paddr)
                actions = [getattr(A, a).value for a in list(EPISODIC) + ['DescriptionModificationReport']]
                body = peers.mk_subscribe(f'http://{paddr[0]}:{paddr[1]}{sub_path}', ep.url(f'/notify{i}'), actions,
                                          expires=3600, msg_id=f'urn:uuid:latesub{i}')
                try:
                    r = peers.SoapResponse(cl.post(sub_path, body, {}))
                    if r.status == 200 and not r.is_fault:
                        late_eps.append((ep, set(actions)))
                        ctx.probe('late_subscribers')
                except OSError:
                    pass

        prh = getattr(w.provider, '_periodic_reports_handler', None)
        if plan['world'].get('periodic') and prh is not None and plan.get('stall_periodic'):
            # the periodic thread (or a writer) is descheduled right before it takes the lock of the periodic store
            s.stall_before(prh._periodic_reports_lock, plan['stall_periodic'], (0.002, 0.02))
        lt = None
        if plan.get('late_subs'):
            lt = threading.Thread(target=late_subscribers, name='late-subscribers')
            lt.start()
        nw = plan['writers']
        if nw == 1:
            writer(0)
        else:
            ctx.probe('multi_writer_runs')
            ctx.nontrivial = True
            ths = [threading.Thread(target=writer, args=(i,), name=f'w{i}') for i in range(nw)]
            for t in ths:
                t.start()
            for t in ths:
                t.join()
        if lt is not None:
            lt.join()
        if plan['world'].get('periodic'):
            s.sleep(plan['world']['periodic'] * 2.5)
        w.settle(3.0)
        if s.escaped:
            ctx.violation('C04.complete', f'exception-in-library-thread:{s.escaped[0][1].split("(")[0]}', str(s.escaped[0])[:1500])
        with s.no_preempt():
            self._judge(ctx, w, subs, A, late_eps)

    # ------------------------------------------------------------------
    def _judge(self, ctx, w, subs, A, late_eps=()):
        hist = w.hist
        dm = w.mdib.data_model
        mt = dm.msg_types
        cls_for = {A.EpisodicMetricReport.value: mt.EpisodicMetricReport, A.EpisodicAlertReport.value: mt.EpisodicAlertReport,
                   A.EpisodicComponentReport.value: mt.EpisodicComponentReport,
                   A.EpisodicOperationalStateReport.value: mt.EpisodicOperationalStateReport,
                   A.EpisodicContextReport.value: mt.EpisodicContextReport, A.Waveform.value: mt.WaveformStream,
                   A.DescriptionModificationReport.value: mt.DescriptionModificationReport,
                   A.PeriodicMetricReport.value: mt.PeriodicMetricReport, A.PeriodicAlertReport.value: mt.PeriodicAlertReport,
                   A.PeriodicComponentReport.value: mt.PeriodicComponentReport,
                   A.PeriodicOperationalStateReport.value: mt.PeriodicOperationalStateReport,
                   A.PeriodicContextReport.value: mt.PeriodicContextReport}
        epi = {getattr(A, k).value: v for k, v in EPISODIC.items()}
        per = {getattr(A, k).value for k in PERIODIC}
        dmr = A.DescriptionModificationReport.value
        seq = (w.mdib.sequence_id, w.mdib.instance_id)
        published = None
        first_seen = {}
        late = {id(ep) for ep, _ in late_eps}
        for ep, actions in list(subs) + list(late_eps):
            last_v = -1
            seen = {}  # (version, action) -> count
            for rec in ep.received:
                if rec.xml is None:
                    ctx.violation('C04.schema', 'unparsable', f'{ep.name}: message #{rec.idx} is not XML: {rec.action}')
                err = xsd.validate(rec.xml)
                if err:
                    ctx.violation('C04.schema', (rec.action or '').rsplit('/', 1)[-1],
                                  f'{ep.name}: message #{rec.idx} ({rec.action}) violates the schema: {err[:600]}')
                act = rec.action
                if act not in actions:
                    ctx.violation('C04.complete', 'not-in-filter', f'{ep.name} received {act} which is not in its filter')
                cls = cls_for.get(act)
                if cls is None:
                    continue
                body = rec.xml.find(f'{{{NS["s12"]}}}Body')[0]
                report = cls.from_node(body)
                ctx.probe('reports_checked')
                v = report.MdibVersion
                if (report.SequenceId, report.InstanceId) != seq:
                    ctx.violation('C04.truth', 'version-group', f'{ep.name}: report {act} carries SequenceId/InstanceId '
                                  f'{(report.SequenceId, report.InstanceId)} but the provider has {seq}')
                if act in per:
                    ctx.probe('periodic_reports')
                    if published is None:
                        from checks.c06 import published_index
                        published = published_index([hist.hist])
                        for vv in sorted(hist.hist):
                            for kind_ in ('states', 'context'):
                                for key_, c_ in hist.hist[vv][kind_].items():
                                    first_seen.setdefault((kind_, key_, version_of(kind_, c_)), vv)
                    for part in report.ReportPart:
                        for st in part.values_list:
                            kind = 'context' if st.is_context_state else 'states'
                            key = st.Handle if st.is_context_state else st.DescriptorHandle
                            c = canon.canon(st)
                            first = first_seen.get((kind, key, version_of(kind, c)))
                            if first is not None and first > v:
                                ctx.violation('C04.periodic', f'{kind}-newer-than-label',
                                              f'{ep.name}: periodic report labelled MdibVersion {v} carries {kind} {key} with '
                                              f'version counter {version_of(kind, c)}, which the provider created with commit '
                                              f'{first}')
                            pub = published.get((kind, key, version_of(kind, c)))
                            if pub is None or not any(strip_versions(p) == strip_versions(c) for p in pub):
                                d = canon.diff(strip_versions(pub[0]), strip_versions(c)) if pub else 'version never existed'
                                ctx.violation('C04.periodic', f'{kind}-content',
                                              f'{ep.name}: periodic report carries {kind} {key} version '
                                              f'{version_of(kind, c)} with content the provider never had for that '
                                              f'version: {d if isinstance(d, str) else d[:4]}')
                    continue
                # episodic / waveform / description modification
                if v < last_v:
                    ctx.violation('C04.order', 'mdibversion-decreased',
                                  f'{ep.name}: received {act} with MdibVersion {v} after MdibVersion {last_v}')
                last_v = max(last_v, v)
                seen[(v, act)] = seen.get((v, act), 0) + 1
                ref = hist.hist.get(v)
                res = hist.results.get(v)
                if ref is None or res is None:
                    ctx.violation('C04.truth', 'unknown-version', f'{ep.name}: report {act} labelled MdibVersion {v}, '
                                                                 f'which is not a committed version')
                if act == dmr:
                    ctx.probe('description_reports')
                    self._check_dmr(ctx, ep, report, res, ref, v, mt)
                    continue
                got = []
                parts = [report] if act == A.Waveform.value else report.ReportPart
                for part in parts:
                    sts = part.State if act == A.Waveform.value else part.values_list
                    src = getattr(part, 'SourceMds', None)
                    if len(parts) > 1:
                        ctx.probe('multi_mds_parts')
                    for st in sts:
                        key = st.Handle if st.is_context_state else st.DescriptorHandle
                        got.append((key, canon.canon(st)))
                        if act != A.Waveform.value:
                            m = mds_of(ref, st.DescriptorHandle)
                            if m is not None and src != m:
                                ctx.violation('C04.truth', 'source-mds', f'{ep.name}: {act} v{v}: state {key} is in a report '
                                                                         f'part with SourceMds={src} but belongs to {m}')
                exp = res[epi[act]]
                self._cmp_lists(ctx, ep, act, v, got, exp)
            # exactly one report per category per commit in the filter (a subscriber that joined in the middle cannot be
            # judged for completeness, only for truth and order of what it received)
            for v, res in ([] if id(ep) in late else hist.results.items()):
                for act, lst in epi.items():
                    if act not in actions:
                        continue
                    if res[lst] and res['descr_created'] == [] and res['descr_updated'] == [] and res['descr_deleted'] == [] \
                            or res[lst]:
                        n = seen.get((v, act), 0)
                        if n != 1:
                            ctx.violation('C04.exactlyone', f'{act.rsplit("/", 1)[-1]}:{n}',
                                          f'{ep.name}: commit {v} changed {len(res[lst])} state(s) of category {lst} but '
                                          f'{n} report(s) {act} arrived')
                has_descr = bool(res['descr_created'] or res['descr_updated'] or res['descr_deleted'])
                if dmr in actions and has_descr and seen.get((v, dmr), 0) != 1:
                    ctx.violation('C04.exactlyone', f'DescriptionModificationReport:{seen.get((v, dmr), 0)}',
                                  f'{ep.name}: commit {v} changed descriptors but {seen.get((v, dmr), 0)} description '
                                  f'modification report(s) arrived')
            for (v, act), n in seen.items():
                if n > 1:
                    ctx.violation('C04.exactlyone', f'{act.rsplit("/", 1)[-1]}:dup', f'{ep.name}: {n} reports {act} for commit {v}')

    def _cmp_lists(self, ctx, ep, act, v, got, exp):
        g = sorted(got, key=lambda x: str(x[0]))
        e = sorted(((k, c) for k, c in exp), key=lambda x: str(x[0]))
        short = act.rsplit('/', 1)[-1]
        if [k for k, _ in g] != [k for k, _ in e]:
            ctx.violation('C04.complete', f'{short}:set-of-states',
                          f'{ep.name}: {short} for commit {v} names {[k for k, _ in g]} but the transaction changed '
                          f'{[k for k, _ in e]}')
        for (k, cg), (_, ce) in zip(g, e):
            if cg != ce:
                d = canon.diff(ce, cg)
                ctx.violation('C04.truth', f'{short}:content', f'{ep.name}: {short} for commit {v}: state {k} differs from '
                                                              f'what was committed (left=committed): {d[:5]}')

    def _check_dmr(self, ctx, ep, report, res, ref, v, mt):
        dmt = mt.DescriptionModificationType
        got = {'descr_created': [], 'descr_updated': [], 'descr_deleted': []}
        got_states = []
        name = {dmt.CREATE: 'descr_created', dmt.UPDATE: 'descr_updated', dmt.DELETE: 'descr_deleted'}
        for part in report.ReportPart:
            lst = got[name[part.ModificationType]]
            for d in part.Descriptor:
                lst.append((d.Handle, canon.snap_descriptor(d)))
            for st in part.State:
                got_states.append((st.Handle if st.is_context_state else st.DescriptorHandle, canon.canon(st)))
        # against the MDIB itself (history entry of this version): every created / updated descriptor of the report is
        # exactly what the MDIB held at this commit, is named once, and a deleted one is gone
        for k in ('descr_created', 'descr_updated'):
            names = [h for h, _ in got[k]]
            dup = sorted({h for h in names if names.count(h) > 1})
            if dup:
                vers = [(h, c.get('DescriptorVersion')) for h, c in got[k] if h in dup]
                ctx.violation('C04.truth', f'dmr:{k}:descriptor-named-more-than-once',
                              f'{ep.name}: description report for commit {v} names {dup} more than once in {k}: {vers}')
            for h, c in got[k]:
                want = ref['descriptors'].get(h)
                if want is None:
                    if h not in {x for x, _ in got['descr_deleted']}:
                        ctx.violation('C04.truth', f'dmr:{k}:not-in-mdib', f'{ep.name}: description report for commit {v} '
                                                                          f'carries {h}, which the MDIB does not hold at that version')
                elif c != want:
                    ctx.violation('C04.truth', f'dmr:{k}:differs-from-mdib',
                                  f'{ep.name}: description report for commit {v}: descriptor {h} is not what the MDIB '
                                  f'held at that commit: {canon.diff(want, c)[:5]}')
        for h, _ in got['descr_deleted']:
            if h in ref['descriptors'] and h not in {x for x, _ in got['descr_created']}:
                ctx.violation('C04.truth', 'dmr:deleted-but-in-mdib', f'{ep.name}: description report for commit {v} says {h} '
                                                                      f'was deleted, the MDIB still holds it')
        for k in got:
            g = sorted(got[k], key=lambda x: x[0])
            e = sorted(res[k], key=lambda x: x[0])
            if [h for h, _ in g] != [h for h, _ in e]:
                ctx.violation('C04.complete', f'dmr:{k}', f'{ep.name}: description report for commit {v}: {k} names '
                                                         f'{[h for h, _ in g]} but the transaction had {[h for h, _ in e]}')
            for (h, cg), (_, ce) in zip(g, e):
                if cg != ce:
                    d = canon.diff(ce, cg)
                    ctx.violation('C04.truth', f'dmr:{k}:content', f'{ep.name}: description report for commit {v}: descriptor '
                                                                  f'{h} differs from what was committed: {d[:5]}')
        exp_states = []
        for k in ('metric_updates', 'alert_updates', 'comp_updates', 'ctxt_updates', 'op_updates', 'rt_updates'):
            exp_states.extend(res[k])
        gs = {h: c for h, c in got_states}
        es = {h: c for h, c in exp_states}
        deleted = {h for h, _ in res['descr_deleted']}
        for h, c in gs.items():
            if h in es:
                if es[h] != c:
                    ctx.violation('C04.truth', 'dmr:state-content', f'{ep.name}: description report for commit {v}: state {h} '
                                                                    f'differs from what was committed: {canon.diff(es[h], c)[:4]}')
        missing = [h for h in es if h not in gs and h not in deleted]
        if missing:
            ctx.violation('C04.complete', 'dmr:states-missing', f'{ep.name}: description report for commit {v} lacks the '
                                                                f'states {missing[:5]} changed by the transaction')


CHECK = C04()
