"""C06 - consumer MDIB never regresses under lost, duplicated or reordered reports (world B + middlebox)."""
from __future__ import annotations

import threading
import uuid

from dsim import canon, proxy, workload as W, worldb
from dsim.base import CheckBase, draw_sched_config
from dsim.history import strip_versions, version_of


def published_index(hists):
    """(kind, key, version counter) -> list of contents the provider had for that object version"""
    idx = {}
    for h in hists:
        for snap in h.values():
            for kind in ('descriptors', 'states', 'context'):
                for key, c in snap[kind].items():
                    k = (kind, key, version_of(kind, c))
                    lst = idx.setdefault(k, [])
                    if c not in lst:
                        lst.append(c)
    return idx


class C06(CheckBase):
    id = 'C06'
    level = 'exploration'
    line_allow = ('sdc11073/mdib/consumermdib', 'sdc11073/consumer/', 'sdc11073/multikey.py')
    rule = ('one evaluation = one simulated provider+consumer session in which a store-and-forward middlebox drops, '
            'duplicates, delays past later ones or replays the notifications of 6-30 seeded provider transactions; in a '
            'subset of runs ConsumerMdib.init_mdib()/reload_all() races with committing writers (GetMdib response '
            'delayed) and the provider changes SequenceId/InstanceId (restart); non-trivial = at least one fault fired; '
            'distinct = distinct event-log digest')
    components = {'real': ['SdcProvider', 'ProviderMdib', 'subscription managers', 'SdcConsumer', 'ConsumerMdib',
                           'deferred dispatcher', 'msgreader/msgfactory', 'http.client/http.server/socketserver'],
                  'stub': ['sockets (simulated tcp)', 'aiohttp session', 'middlebox (harness)', 'WS-Discovery stub']}
    assumptions = ['the middlebox acknowledges every notification to the provider (transport-level failures are C08)',
                   'equality with the provider is only demanded at recovery points after faults stopped']
    expected_probes = ['drop', 'dup', 'delay', 'replay', 'getmdib_race', 'seq_change', 'recover_checked',
                       'race_buffered', 'stall_in_replay', 'reload_overtakes_report']
    max_steps = 8_000_000

    def budget(self, tier):
        return {'quick': {'runs': 220, 'wall': 85}, 'thorough': {'runs': 12000, 'wall': 1800}}[tier]

    def generate(self, rng, tier):
        cfg = worldb.draw_config(rng, periodic=None, latency=rng.choice([0.0, 0.001]),
                                 contextstates_in_getmdib=rng.choice([None, True, False, False]))
        g = W.Gen(rng, cfg['mdib'], validate=True)
        n = rng.randint(6, 30 if tier == 'thorough' else 14)
        ops = []
        for _ in range(n):
            op = g.gen_op()
            if op is not None:
                ops.append(op)
        # fault plan over notification indices (a descriptor transaction emits several notifications)
        fates = {}
        rate = rng.choice([0.0, 0.1, 0.2, 0.35])
        for i in range(len(ops) * 4 + 8):
            if rng.random() < rate:
                k = rng.choice(['drop', 'drop', 'dup', 'delay', 'replay'])
                if k == 'drop':
                    fates[str(i)] = ['drop']
                elif k == 'dup':
                    fates[str(i)] = ['dup', rng.choice([2, 2, 3])]
                elif k == 'delay':
                    fates[str(i)] = ['delay', rng.randint(1, 4)]
                else:
                    fates[str(i)] = ['replay', rng.randrange(0, max(1, i))]
        race = rng.random() < 0.4
        seq_change = None
        if rng.random() < 0.35 and len(ops) > 4:
            seq_change = {'after_op': rng.randrange(1, len(ops) - 1), 'reset_version': rng.random() < 0.5,
                          'instance_only': rng.random() < 0.2}
        race_op = g.gen_op(kinds=['metric', 'metric', 'alert', 'component'])
        return {'sched': draw_sched_config(rng, stall_ok=True), 'world': cfg, 'ops': ops, 'fates': fates, 'race_op': race_op,
                'race': {'ops_during': rng.randint(1, 4), 'delay': rng.choice([0.0, 0.05, 0.2]),
                         'stall_replay': rng.choice([0.0, 0.0, 0.015, 0.04])} if race else None,
                'seq_change': seq_change, 'race_reload_at_end': (rng.choice([False, False, True]) if seq_change else
                                                          rng.choice([False, False, True, 'report-first', 'report-first'])),
                'reload_delay': rng.choice([0.0, 0.002, 0.006, 0.02])}

    # ------------------------------------------------------------------
    def body(self, ctx):
        plan = ctx.plan
        s = ctx.s
        w = worldb.WorldB(ctx, plan['world'])
        w.start_provider(role_components=None)
        hist = w.hist
        c, _ = w.start_consumer(0, init_mdib=False)
        from sdc11073.mdib import ConsumerMdib
        from sdc11073 import observableproperties as op
        with worldb.node(worldb.CONSUMER_IPS[0]):
            cm = ConsumerMdib(c)

            class _CountingList(list):
                def append(self_, item):  # noqa: N805
                    ctx.probe('race_buffered')
                    list.append(self_, item)
            cm._buffered_notifications = _CountingList()
            # every change of the consumer's MdibVersion is observed (not only the value at quiescent points)
            regress = []
            orig_upd = cm._update_from_mdib_version_group

            def watched_update(vg):
                before = (cm.mdib_version, cm.sequence_id)
                orig_upd(vg)
                if before[0] is not None and cm.mdib_version is not None and cm.sequence_id == before[1] \
                        and cm.mdib_version < before[0]:
                    regress.append((before[0], cm.mdib_version, threading.current_thread().name))
            cm._update_from_mdib_version_group = watched_update

            class _StallingLock:
                """slow-node fault at a chosen site: the thread that loads the MDIB is descheduled for a while right after it
                took the buffered-notifications lock (i.e. at the start of the replay of buffered reports)"""

                def __init__(self_, inner):  # noqa: N805
                    self_.inner = inner

                def __enter__(self_):  # noqa: N805
                    self_.inner.acquire()
                    d = (plan.get('race') or {}).get('stall_replay')
                    if d and threading.current_thread().name in ('init_mdib', 'reload'):
                        ctx.probe('stall_in_replay')
                        ctx.net.fault_counts['thread_stall'] = ctx.net.fault_counts.get('thread_stall', 0) + 1
                        s.sleep(d)
                    return self_

                def __exit__(self_, *a):  # noqa: N805
                    self_.inner.release()

                def acquire(self_, *a, **k):  # noqa: N805
                    return self_.inner.acquire(*a, **k)

                def release(self_):  # noqa: N805
                    return self_.inner.release()
            cm._buffered_notifications_lock = _StallingLock(cm._buffered_notifications_lock)
        events = []
        op.strongbind(cm, sequence_or_instance_id_changed_event=lambda v: events.append(v))
        # middlebox in front of the consumer's notification listener
        srv = c._http_server
        target = (worldb.CONSUMER_IPS[0], srv.server_port)
        mbox = proxy.Middlebox(target, plan['fates'])
        ops = list(plan['ops'])
        state = {'last': {}, 'frozen': None}

        def provider_op(o):
            with worldb.node(worldb.PROVIDER_IP):
                s.reseed('op', o['id'])
                try:
                    W.apply_op(w.mdib, o)
                except W.OpRejected:
                    ctx.probe('rejected')

        # ---------- initial load, optionally racing with commits
        race = plan.get('race')
        if race:
            ctx.probe('getmdib_race')
            n_during = min(race['ops_during'], max(0, len(ops) - 2))
            during, ops = ops[:n_during], ops[n_during:]
            if race['delay']:
                def hook(conn):
                    if conn.server_addr[0] == worldb.PROVIDER_IP and conn.client_addr[0] == worldb.CONSUMER_IPS[0]:
                        conn.s2c.extra_latency = race['delay']
                w.net.connect_hooks.append(hook)
                # the consumer's existing keep-alive connection to the provider:
                for conn in w.net.conns:
                    hook(conn)

            def init():
                with worldb.node(worldb.CONSUMER_IPS[0]):
                    cm.init_mdib()

            t = threading.Thread(target=init, name='init_mdib')
            t.start()
            for o in during:
                provider_op(o)
                s.sleep(0.01)
            if race.get('stall_replay') and ops and t.is_alive():
                # keep committing while the consumer finishes loading
                for o in ops[:2]:
                    provider_op(o)
                    s.sleep(0.01)
                ops = ops[2:]
            t.join()
            for conn in w.net.conns:
                conn.s2c.extra_latency = 0.0
            w.net.connect_hooks.clear()
        else:
            with worldb.node(worldb.CONSUMER_IPS[0]):
                cm.init_mdib()
        if not w.settle(5.0):
            ctx.violation('C06.initial', 'no-quiescence', 'consumer not idle 5 virtual s after init_mdib')
        state['loaded'] = (cm.sequence_id, cm.instance_id)
        mbox_faults_so_far = bool(mbox.dropped or mbox.held or any(k in w.net.fault_counts for k in ('dup', 'replay', 'reordered_delivery')))
        if not mbox_faults_so_far:
            # reports that arrived while GetMdib was in flight are neither lost nor applied twice
            self._expect_mirror(ctx, w, cm, 'C06.initial', 'after init_mdib')
        self._invariants(ctx, w, cm, state, 'after init')

        # ---------- main history under faults
        sc = plan.get('seq_change')
        for i, o in enumerate(ops):
            provider_op(o)
            w.settle(3.0)
            self._invariants(ctx, w, cm, state, f'after op {o["id"]}')
            if sc and i == sc['after_op']:
                ctx.probe('seq_change')
                with worldb.node(worldb.PROVIDER_IP), w.mdib.mdib_lock:
                    if sc.get('instance_only'):
                        w.mdib.instance_id = (w.mdib.instance_id or 0) + 1
                    else:
                        w.mdib.sequence_id = uuid.uuid4().urn
                    if sc.get('reset_version'):
                        w.mdib.mdib_version = 0
                    hist.new_epoch()
                state['changed_at'] = i
                state['expect_change'] = True
        # ---------- faults stop; recovery
        mbox.flush()
        w.settle(5.0)
        self._invariants(ctx, w, cm, state, 'after flush')
        if state.get('expect_change') and state['frozen'] is not None and not events:
            w.settle(2.0)
            if not events:
                ctx.violation('C06.frozen', 'no-change-event',
                              'consumer detected a SequenceId/InstanceId change but the application was never told')
        if plan.get('race_reload_at_end') and ops:
            # reload while the provider keeps committing
            extra = ops[-1]
            if plan.get('race_reload_at_end') == 'report-first':
                # a report is on its way through the consumer (its handler thread may be descheduled right before it
                # takes the MDIB lock) when the application starts the reload
                ctx.probe('reload_overtakes_report')
                s.stall_before(cm.mdib_lock, 0.5, (0.005, 0.03))
                provider_op(dict(plan.get('race_op') or extra, id=extra['id'] + 1000))
                provider_op(dict(extra, id=extra['id'] + 1001))  # (so that the reload fetches something newer)
                s.sleep(plan.get('reload_delay', 0.002))
                self._reload(cm, ctx)
                s.stall_locks.clear()
            else:
                t = threading.Thread(target=lambda: self._reload(cm, ctx), name='reload')
                t.start()
                provider_op(dict(extra, id=extra['id'] + 1000))
                t.join()
        else:
            self._reload(cm, ctx)
        if not w.settle(5.0):
            ctx.violation('C06.recover', 'no-quiescence', 'consumer not idle 5 virtual s after reload_all')
        ctx.probe('recover_checked')
        self._expect_mirror(ctx, w, cm, 'C06.recover', 'after reload_all with faults stopped')
        if regress:
            ctx.violation('C06.monotonic', 'mdibversion-transient',
                          f'the consumer MdibVersion went backwards while a report was applied: {regress[:3]} '
                          f'(old, new, thread)')
        if s.escaped:
            esc = s.escaped[0]
            ctx.violation('C06.lookups', f'exception-in-thread:{esc[1].split("(")[0]}', str(esc)[:1500])
        ctx.nontrivial = any(w.net.fault_counts.get(k) for k in ('drop', 'dup', 'delay', 'replay')) or bool(race)

    @staticmethod
    def _reload(cm, ctx):
        with worldb.node(worldb.CONSUMER_IPS[0]):
            try:
                cm.reload_all()
            except Exception as ex:  # noqa: BLE001
                # faults have stopped at this point: the reload has no excuse to fail
                import traceback
                ctx.violation('C06.recover', f'reload_all-raises:{type(ex).__name__}', traceback.format_exc()[-2500:])

    def _expect_mirror(self, ctx, w, cm, clause, where):
        with ctx.s.no_preempt():
            a = w.hist.hist.get(w.mdib.mdib_version) or canon.snap(w.mdib)
            b = canon.snap(cm)
        if a != b:
            d = canon.diff(a, b)
            first = [p for p in d[0].split(':')[0].split('/') if p]
            sig = first[0] if first else 'group'
            ctx.violation(clause, sig, f'{where}: consumer is not a mirror of the provider at MdibVersion '
                                       f'{w.mdib.mdib_version} (left=provider, right=consumer): {d[:6]}')

    def _invariants(self, ctx, w, cm, state, where):
        with ctx.s.no_preempt():
            snap = canon.snap(cm)
            audit = canon.audit_mdib(cm, 'consumer')
            cstate = cm._state.name
        if audit:
            ctx.violation('C06.lookups', audit[0].split('[')[0].split(':')[0], f'{where}: {audit[:3]}')
        seq = snap['group'][1:]
        if state.get('loaded') is not None and tuple(seq) != tuple(state['loaded']):
            ctx.violation('C06.frozen', 'sequence-or-instance-id-replaced-without-reload',
                          f'{where}: the consumer MDIB was loaded for (SequenceId, InstanceId) {state["loaded"]} and now '
                          f'carries {tuple(seq)} although the application did not reload (a report of the new provider '
                          f'incarnation was applied)')
        last = state['last'].get(seq)
        # frozen after a detected change
        if cstate == 'invalid':
            ctx.probe('invalid_state_seen')
            body = {k: v for k, v in snap.items()}
            if state['frozen'] is None:
                state['frozen'] = body
            elif state['frozen'] != body:
                d = canon.diff(state['frozen'], body)
                ctx.violation('C06.frozen', 'updated-while-invalid',
                              f'{where}: consumer MDIB changed after a SequenceId/InstanceId change was detected and '
                              f'before reload: {d[:4]}')
        else:
            state['frozen'] = None
        if last is not None and snap['group'][0] is not None and last['group'][0] is not None:
            if snap['group'][0] < last['group'][0]:
                ctx.violation('C06.monotonic', 'mdibversion', f'{where}: consumer MdibVersion went back '
                                                             f'{last["group"][0]} -> {snap["group"][0]}')
            for kind in ('states', 'context', 'descriptors'):
                for key, cnew in snap[kind].items():
                    cold = last[kind].get(key)
                    if cold is not None and version_of(kind, cnew) < version_of(kind, cold):
                        ctx.violation('C06.monotonic', f'{kind}-version',
                                      f'{where}: {kind} {key} version went back {version_of(kind, cold)} -> '
                                      f'{version_of(kind, cnew)}')
                    if cold is not None and version_of(kind, cnew) == version_of(kind, cold) and kind != 'descriptors' \
                            and strip_versions(cnew) != strip_versions(cold):
                        d = canon.diff(strip_versions(cold), strip_versions(cnew))
                        ctx.violation('C06.stale', f'{kind}-content-changed-same-version',
                                      f'{where}: {kind} {key} content changed although its version stayed '
                                      f'{version_of(kind, cnew)}: {d[:3]}')
        state['last'][seq] = snap
        # everything held was actually published
        hists = [w.hist.hist] + [h for _, h in w.hist.epochs]
        idx = published_index(hists)
        for kind in ('states', 'context'):
            for key, c in snap[kind].items():
                k = (kind, key, version_of(kind, c))
                pub = idx.get(k)
                want = strip_versions(c)
                if pub is None:
                    ctx.violation('C06.published', f'{kind}-version-never-published',
                                  f'{where}: consumer holds {kind} {key} with version {k[2]} that the provider never had')
                elif not any(strip_versions(p) == want for p in pub):
                    d = canon.diff(strip_versions(pub[0]), want)
                    ctx.violation('C06.published', f'{kind}-content-never-published',
                                  f'{where}: consumer holds {kind} {key} version {k[2]} with content the provider never '
                                  f'published for it (left=provider): {d[:4]}')


CHECK = C06()
