"""C07 - Get responses are consistent snapshots under concurrent transactions (world B: getter tasks x writer tasks)."""
from __future__ import annotations

import threading

from dsim import canon, workload as W, worldb
from dsim.base import CheckBase, draw_sched_config


def select_states(snap, handles, with_context=True):
    """reference selection (BICEPS GetMdState rules) over a history snapshot -> set of ('states'|'context', key)"""
    out = set()
    if not handles:
        out |= {('states', k) for k in snap['states']}
        if with_context:
            out |= {('context', k) for k in snap['context']}
        return out
    for h in handles:
        if with_context and h in snap['context']:
            out.add(('context', h))
            continue
        if h in snap['states']:
            out.add(('states', h))
        if with_context:
            out |= {('context', k) for k, c in snap['context'].items() if c.get('DescriptorHandle') == h}
    return out


def select_context_states(snap, handles):
    if not handles:
        return {('context', k) for k in snap['context']}
    out = set()
    for h in handles:
        if h in snap['context']:
            out.add(('context', h))
            continue
        d = snap['descriptors'].get(h)
        if d is None:
            continue
        if d.get('@parent') is None:  # an MDS: all context states of that MDS
            for k, c in snap['context'].items():
                hh = c.get('DescriptorHandle')
                seen = set()
                while hh is not None and hh not in seen:
                    seen.add(hh)
                    if hh == h:
                        out.add(('context', k))
                        break
                    dd = snap['descriptors'].get(hh)
                    hh = dd.get('@parent') if dd else None
        else:
            out |= {('context', k) for k, c in snap['context'].items() if c.get('DescriptorHandle') == h}
    return out


class C07(CheckBase):
    id = 'C07'
    level = 'exploration'
    line_allow = ('sdc11073/provider/porttypes/getserviceimpl.py', 'sdc11073/provider/porttypes/contextserviceimpl.py',
                  'sdc11073/mdib/mdibbase.py', 'sdc11073/mdib/providermdib.py', 'sdc11073/mdib/transactions.py')
    rule = ('one evaluation = one simulated session in which 1-2 getter tasks issue 6-30 GetMdib / GetMdDescription / '
            'GetMdState(handles) / GetContextStates(handles) requests through the real service clients while 1-3 writer '
            'tasks commit 8-30 seeded transactions; each answer is compared with the provider history entry of the '
            'MdibVersion stated in the answer (content, version counters, selected set, SequenceId/InstanceId); '
            'non-trivial = at least one commit happened between the start and the end of some request; distinct = '
            'distinct event-log digest')
    components = {'real': ['SdcProvider', 'GetService', 'ContextService', 'ProviderMdib', 'msgfactory', 'HTTP server stack',
                           'SdcConsumer service clients', 'msgreader'],
                  'stub': ['sockets', 'aiohttp session', 'WS-Discovery stub']}
    assumptions = ['answers are parsed with the library\'s reader before canonicalisation',
                   'ClockState.DateAndTime (self-updating) is excluded']
    expected_probes = ['requests', 'overlapped_requests', 'GetMdib', 'GetMdState', 'GetMdDescription',
                       'GetContextStates']
    max_steps = 8_000_000

    def budget(self, tier):
        return {'quick': {'runs': 200, 'wall': 85}, 'thorough': {'runs': 10000, 'wall': 1800}}[tier]

    def generate(self, rng, tier):
        cfg = worldb.draw_config(rng, periodic=None, frag_max=rng.choice([None, None, 4000]),
                                 max_subscription_duration=7200)
        g = W.Gen(rng, cfg['mdib'], validate=True)
        writers = rng.choice([1, 1, 2, 3])
        ops = []
        for _ in range(rng.randint(8, 30 if tier == 'thorough' else 16)):
            op = g.gen_op(kinds=['state'] * 5 + ['context'] * 3 + ['descr'] * 4)
            if op is None:
                continue
            op['w'] = rng.randrange(writers)
            op['pause'] = rng.choice([0, 0, 0, 0.001])
            ops.append(op)
        # request plan (handles are taken from the model: existing, context-state, unknown, mds)
        m = g.m
        descr = sorted(d.Handle for d in m.descriptions.objects)
        ctx_states = sorted(st.Handle for st in m.context_states.objects)
        ctx_descr = sorted(d.Handle for d in m.descriptions.objects if d.is_context_descriptor)
        mds = sorted(d.Handle for d in m.descriptions.objects if d.parent_handle is None)
        # handles that come and go while the requests are served
        volatile = sorted({st['h'] for op in ops if op['k'] == 'descr' for st in op['steps'] if st['a'] in ('delete', 'create')})
        getters = rng.choice([1, 2])
        reqs = []
        for i in range(rng.randint(6, 30 if tier == 'thorough' else 14)):
            kind = rng.choice(['GetMdib', 'GetMdState', 'GetMdState', 'GetMdDescription', 'GetContextStates',
                               'GetContextStates'])
            handles = None
            if kind != 'GetMdib' and rng.random() < 0.7:
                pool = descr + ctx_states + ['unknown.handle']
                if kind == 'GetContextStates':
                    pool = ctx_states * 3 + ctx_descr * 3 + mds + ['unknown.handle']
                handles = [rng.choice(pool) for _ in range(rng.randint(1, 4))]
                if volatile and rng.random() < 0.5:
                    handles = [rng.choice(volatile) for _ in range(rng.randint(1, 2))]
            reqs.append({'id': i, 'g': rng.randrange(getters), 'kind': kind, 'handles': handles})
        sub = rng.random() < 0.3
        return {'sched': draw_sched_config(rng), 'world': cfg, 'writers': writers, 'ops': ops, 'getters': getters,
                'reqs': reqs, 'subscribe': sub, 'stall_after_mdib_lock': rng.choice([0.0, 0.2, 0.5]),
                'stall_before_mdib_lock': rng.choice([0.0, 0.0, 0.2, 0.4])}

    # ------------------------------------------------------------------
    def body(self, ctx):
        plan = ctx.plan
        s = ctx.s
        cfg = dict(plan['world'])
        w = worldb.WorldB(ctx, cfg)
        w.start_provider(role_components=None)
        A = w.mdib.sdc_definitions.Actions
        if not plan.get('subscribe'):
            cfg['consumer_start_args'] = {'not_subscribed_actions': [a.value for a in A if 'Report' in a.name or a.name == 'Waveform']}
        consumers = []
        for gi in range(plan['getters']):
            c, _ = w.start_consumer(gi, init_mdib=False)
            consumers.append(c)
        hist = w.hist
        results = []  # (req, v_start, v_end, result or exception)
        if plan.get('stall_after_mdib_lock'):
            # slow-thread fault placed where a handler has collected its data and released the MDIB lock
            s.stall_after(w.mdib.mdib_lock, plan['stall_after_mdib_lock'], (0.002, 0.008))
        if plan.get('stall_before_mdib_lock'):
            # ... and where a handler has looked something up and is about to take the MDIB lock
            s.stall_before(w.mdib.mdib_lock, plan['stall_before_mdib_lock'], (0.002, 0.008))

        def writer(wi):
            with worldb.node(worldb.PROVIDER_IP):
                for op in plan['ops']:
                    if op.get('w', 0) != wi:
                        continue
                    s.reseed('op', op['id'])
                    try:
                        W.apply_op(w.mdib, op)
                    except W.OpRejected:
                        ctx.probe('rejected')
                    if op.get('pause'):
                        s.sleep(op['pause'])

        def getter(gi):
            c = consumers[gi]
            with worldb.node(worldb.CONSUMER_IPS[gi]):
                for rq in plan['reqs']:
                    if rq['g'] != gi:
                        continue
                    v0 = w.mdib.mdib_version
                    try:
                        if rq['kind'] == 'GetMdib':
                            r = c.client('Get').get_mdib()
                        elif rq['kind'] == 'GetMdState':
                            r = c.client('Get').get_md_state(rq['handles'])
                        elif rq['kind'] == 'GetMdDescription':
                            r = c.client('Get').get_md_description(rq['handles'])
                        else:
                            r = c.client('Context').get_context_states(rq['handles'])
                    except Exception as ex:  # noqa: BLE001
                        r = ex
                    results.append((rq, v0, w.mdib.mdib_version, r))

        ths = [threading.Thread(target=writer, args=(i,), name=f'w{i}') for i in range(plan['writers'])]
        ths += [threading.Thread(target=getter, args=(i,), name=f'g{i}') for i in range(plan['getters'])]
        for t in ths:
            t.start()
        for t in ths:
            t.join()
        with s.no_preempt():
            for rq, v0, v1, r in results:
                ctx.probe('requests')
                ctx.probe(rq['kind'])
                if v1 > v0:
                    ctx.probe('overlapped_requests')
                    ctx.nontrivial = True
                if isinstance(r, Exception):
                    ctx.violation('C07.content', f'request-failed:{rq["kind"]}:{type(r).__name__}', f'{rq}: {r!r}')
                self._judge(ctx, w, hist, rq, v0, v1, r)

    def _judge(self, ctx, w, hist, rq, v0, v1, r):
        kind = rq['kind']
        vg = r.mdib_version_group
        v = vg.mdib_version
        ref = hist.hist.get(v)
        where = f'{kind}({rq["handles"]}) answered with MdibVersion {v} (request ran while the provider went {v0}->{v1})'
        if ref is None or not (v0 <= v <= v1):
            ctx.violation('C07.group', f'{kind}:version-outside-request-window', where)
        if (vg.sequence_id, vg.instance_id) != (w.mdib.sequence_id, w.mdib.instance_id):
            ctx.violation('C07.group', f'{kind}:sequence-or-instance-id', f'{where}: {vg.sequence_id}/{vg.instance_id}')
        got_d = got_s = None
        reader = r.msg_reader
        if kind == 'GetMdib':
            ds, sts = r.result
            got_d, got_s = ds, sts
            exp_sel = select_states(ref, None, True)
        elif kind == 'GetMdState':
            got_s = list(r.result.MdState.State)
            exp_sel = select_states(ref, rq['handles'], True)
        elif kind == 'GetContextStates':
            got_s = list(r.result.ContextState)
            exp_sel = select_context_states(ref, rq['handles'])
        else:
            node = r.p_msg.msg_node[0]
            got_d = reader._read_md_description_node(node)
            exp_sel = None
        if got_s is not None:
            got_keys = set()
            for st in got_s:
                table = 'context' if st.is_context_state else 'states'
                key = st.Handle if st.is_context_state else st.DescriptorHandle
                got_keys.add((table, key))
                want = ref[table].get(key)
                c = canon.canon(st)
                if want is None:
                    ctx.violation('C07.selection', f'{kind}:entity-not-existing-at-version',
                                  f'{where}: contains {table} {key} which did not exist at that version')
                elif c != want:
                    d = canon.diff(want, c)
                    ctx.violation('C07.content', f'{kind}:{table}',
                                  f'{where}: {table} {key} differs from the MDIB at that version (left=history): {d[:5]}')
            if got_keys != exp_sel:
                ctx.violation('C07.selection', f'{kind}:set',
                              f'{where}: selected {sorted(got_keys - exp_sel)[:5]} extra, '
                              f'{sorted(exp_sel - got_keys)[:5]} missing')
        if got_d is not None:
            got_h = set()
            for d in got_d:
                got_h.add(d.Handle)
                want = ref['descriptors'].get(d.Handle)
                c = canon.snap_descriptor(d)
                if want is None:
                    ctx.violation('C07.selection', f'{kind}:descriptor-not-existing-at-version',
                                  f'{where}: contains descriptor {d.Handle} which did not exist at that version')
                elif c != want:
                    dd = canon.diff(want, c)
                    ctx.violation('C07.content', f'{kind}:descriptors',
                                  f'{where}: descriptor {d.Handle} differs from the MDIB at that version: {dd[:5]}')
            if kind == 'GetMdib' or not rq['handles'] or any(h in ref['descriptors'] for h in rq['handles']):
                exp_h = set(ref['descriptors'])
            else:
                exp_h = set()
            # (GetMdDescription with handles: the library answers with everything if one of the handles names an existing
            # descriptor and with nothing otherwise - "existing" is judged at the version the answer states)
            if got_h != exp_h:
                ctx.violation('C07.selection', f'{kind}:descriptor-set',
                              f'{where}: descriptors {sorted(got_h - exp_h)[:5]} extra, {sorted(exp_h - got_h)[:5]} missing')


CHECK = C07()
