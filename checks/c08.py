"""C08 - WS-Eventing subscriptions deliver exactly while alive and end cleanly (world B, provider + scripted
subscribers, virtual clock, delivery failures, reference liveness model driven only by what subscribers observe)."""
from __future__ import annotations

import threading

from lxml import etree

from dsim import canon, peers, workload as W, worldb
from dsim.base import CheckBase, draw_sched_config
from dsim.xsd import NS

EPS = 0.06
SEND_MARGIN = 0.05  # decision to send -> first byte on the wire: connection set-up at <= 1 ms latency, no thread stalls
GRACE = 2.3  # housekeeping period (1 s sleep) + 1 s delay after unsubscribe + slack
CAT_ACTION = {'metric_updates': 'EpisodicMetricReport', 'alert_updates': 'EpisodicAlertReport',
              'comp_updates': 'EpisodicComponentReport', 'op_updates': 'EpisodicOperationalStateReport',
              'ctxt_updates': 'EpisodicContextReport', 'rt_updates': 'Waveform'}
SUB_IPS = ['10.0.1.1', '10.0.1.2', '10.0.1.3', '10.0.1.4']


class Sub:
    """what one subscriber knows about one of its subscriptions"""

    def __init__(self, k, owner, actions, requested, end_kind):
        self.k = k
        self.owner = owner
        self.actions = actions
        self.requested = requested
        self.end_kind = end_kind
        self.mgr_addr = None
        self.mgr_ref = []
        self.granted = None
        self.t_req = self.t_resp = None  # of the last successful Subscribe / Renew
        self.grants = []  # (step_resp, t_req, t_resp, granted) of every successful Subscribe / Renew
        self.unsub_resp = None
        self.step_resp = None  # scheduler step at which the Subscribe response was received (orders same-time events)
        self.unsub_step = None
        self.unsub_answered = None  # (virtual time, step) at which the provider wrote its UnsubscribeResponse
        self.failures = 0
        self.fail_t = None  # virtual time of the first delivery failure this subscription (or its connection) saw
        self.ended = False
        self.accepted = False

    def definitely_alive(self, t0, t1, step0=None):
        if not self.accepted or self.unsub_resp is not None or self.ended:
            return False
        if step0 is not None and step0 <= self.step_resp:
            return False  # the commit started before the subscription was accepted
        if self.fail_t is not None and t1 >= self.fail_t - EPS:
            return False  # uncertain after a delivery failure
        t_req, _, granted = self._grant_at(step0)
        return t1 < t_req + granted - EPS

    def _grant_at(self, step0):
        g = self.grants[0]
        for cand in self.grants:
            if step0 is None or cand[0] < step0:
                g = cand
        return g[1], g[2], g[3]

    def definitely_dead(self, t0, step0=None):
        if not self.accepted:
            return 'not-accepted'
        if self.ended:
            return 'ended'
        if self.unsub_resp is not None and (step0 > self.unsub_step if step0 is not None else t0 >= self.unsub_resp):
            return 'unsubscribed'
        # expired if every grant known at that point had run out (a later Renew does not revive the past)
        _, t_resp, granted = self._grant_at(step0)
        if t0 > t_resp + granted + EPS:
            return 'expired'
        return None


class C08(CheckBase):
    id = 'C08'
    level = 'exploration'
    line_allow = ('sdc11073/provider/subscriptionmgr',)
    rule = ('one evaluation = one simulated provider session with 1-4 scripted subscribers issuing 10-45 seeded '
            'Subscribe / Renew / GetStatus / Unsubscribe requests (also with unknown identifiers), provider transactions, '
            'virtual-clock advances across expiry and housekeeping, wall-clock jumps, endpoint failures (HTTP errors, '
            'refused connections, resets, stalls beyond the socket timeout) and a final stop_all; a reference model driven '
            'only by what the subscribers observed decides for every (commit, subscription) whether a notification had '
            'to / must not arrive; non-trivial = an expiry was crossed or a delivery fault fired; distinct = event-log digest')
    components = {'real': ['SdcProvider', 'subscription managers (sync/async x path/reference-parameter)', 'dpws hosted '
                           'service dispatch', 'SoapClient / SoapClientAsync (all but session)', 'SoapClientPool',
                           'msgreader/msgfactory', 'HTTP server stack'],
                  'stub': ['subscribers (scripted endpoints and raw clients)', 'sockets', 'aiohttp session']}
    assumptions = ['inside +-0.06 virtual s around an expiry instant either outcome is accepted',
                   'after a delivery attempt failed the subscription is treated as "uncertain" (either outcome accepted): '
                   'what counts as exceeding the failure limit is the library\'s decision',
                   'up to 2.3 virtual s after Unsubscribe / expiry a request naming that subscription may be answered '
                   'either way (housekeeping grace)']
    expected_probes = ['subscribe', 'renew', 'getstatus', 'unsubscribe', 'unknown_id', 'expiry_crossed', 'commits',
                       'expected_deliveries', 'forbidden_checked', 'stop_end', 'clock_jump',
                       'unsubscribe_during_delivery', 'commit_during_stop', 'end_answered_with_http_error']
    max_steps = 6_000_000
    max_virtual = 100000.0

    def budget(self, tier):
        return {'quick': {'runs': 260, 'wall': 85}, 'thorough': {'runs': 15000, 'wall': 1800}}[tier]

    def generate(self, rng, tier):
        maxdur = rng.choice([3, 5, 8, 15, 30])
        cfg = worldb.draw_config(rng, periodic=None, max_subscription_duration=maxdur, mdib='tns',
                                 frag_max=rng.choice([None, None, 4000]), latency=rng.choice([0.0, 0.001]))
        g = W.Gen(rng, 'tns', validate=True)
        nsub = rng.randint(1, 4)
        actions = list(CAT_ACTION.values()) + ['DescriptionModificationReport', 'PeriodicMetricReport']
        ops = []
        n = rng.randint(10, 45 if tier == 'thorough' else 24)
        nsubs = 0
        for i in range(n):
            k = rng.choice(['subscribe', 'subscribe', 'tx', 'tx', 'tx', 'tx', 'renew', 'getstatus', 'unsubscribe',
                            'advance', 'advance', 'behaviour', 'unknown', 'clock_jump', 'heal', 'tx_unsub'])
            if k == 'tx_unsub' and nsubs < 2:
                k = 'subscribe'
            if nsubs == 0:
                k = 'subscribe'
            op = {'id': i, 'k': k}
            if k == 'subscribe':
                nsubs += 1
                sel = sorted(rng.sample(actions, rng.randint(1, len(actions))))
                if rng.random() < 0.2:
                    sel.append('http://example.org/UnknownAction')
                if rng.random() < 0.25:
                    sel = ['OperationInvokedReport']
                    op['svc'] = 'Set'
                op.update({'owner': rng.randrange(nsub), 'actions': sel,
                           'expires': rng.choice([None, 1, 2, maxdur / 2.0, maxdur, maxdur * 3, 3600]),
                           'end_to': rng.choice(['none', 'none', 'own', 'other']),
                           'accept': rng.choice([None, 'gzip', 'x-lz4, gzip', 'gzip;q=0', 'identity', '*', '']),
                           'ref': rng.random() < 0.4, 'sep': rng.choice([' ', ' ', ' ', '\n', '\t', '  ', '\n    '])})
            elif k in ('tx', 'tx_unsub'):
                tx = g.gen_op(kinds=['metric', 'alert', 'component', 'operational', 'context', 'descr', 'rt'])
                if tx is None:
                    continue
                op['tx'] = tx
                if k == 'tx_unsub':
                    # a subscriber unsubscribes while the provider is busy delivering the reports of a commit to slow peers
                    op.update({'sub': rng.randrange(nsubs), 'slow_d': rng.choice([0.15, 0.3, 0.6]),
                               'unsub_delay': rng.choice([0.0, 0.02, 0.08])})
            elif k in ('renew', 'getstatus', 'unsubscribe'):
                op.update({'sub': rng.randrange(max(1, nsubs)), 'expires': rng.choice([None, 1, maxdur, maxdur * 2])})
            elif k == 'advance':
                op['t'] = rng.choice([0.3, 0.9, 1.1, 2.5, maxdur / 2.0, maxdur * 0.99, maxdur + 0.5, maxdur * 2])
            elif k == 'behaviour':
                op.update({'sub': rng.randrange(max(1, nsubs)),
                           'mode': rng.choice([['status', 500], ['status', 404], ['status', 400], ['reset_before_response'],
                                               ['reset_mid_response', rng.randint(1, 60)], ['stall', maxdur * 1.2 + 5],
                                               ['close'], ['refuse'], ['ok']])})
            elif k == 'unknown':
                op.update({'req': rng.choice(['Renew', 'GetStatus', 'Unsubscribe']), 'sub': rng.randrange(max(1, nsubs)),
                           'how': rng.choice(['bogus', 'bogus', 'stale'])})
            elif k == 'clock_jump':
                op['dt'] = rng.choice([-3600.0, -10.0, 5.0, 3600.0, 86400.0])
            ops.append(op)
        stop = {'send_end': rng.random() < 0.75,
                'end_status': rng.choice([None, None, [500, rng.randrange(8)], [404, rng.randrange(8)]])}
        if rng.random() < 0.5:
            nsub = max(nsub, 2)  # (the two fresh subscriptions below sit behind different endpoints)
            # the application commits a transaction while stop_all() is ending the subscriptions (slow peers)
            tx = g.gen_op(kinds=['metric', 'alert', 'component', 'operational', 'context', 'rt'])
            if tx is not None:
                # tx_delay (x slow_d) < 0: the commit starts first and its sending thread is stalled right after it took
                # the list of subscribers, stop_all() overtakes it
                stop.update({'tx': tx, 'slow_d': rng.choice([0.15, 0.4]), 'tx_delay': rng.choice([-1, -1, -1, 0.5, 1.5, 2.5])})
                # two fresh subscriptions for everything, so that live subscribers exist when the provider stops
                for j in range(2):
                    ops.append({'id': n + j, 'k': 'subscribe', 'owner': j, 'actions': sorted(actions), 'expires': 3600,
                                'end_to': rng.choice(['none', 'own']), 'accept': None, 'ref': False})
        return {'sched': draw_sched_config(rng), 'world': cfg, 'nsub': nsub, 'ops': ops, 'stop': stop}

    # ------------------------------------------------------------------
    def body(self, ctx):
        plan = ctx.plan
        s = ctx.s
        w = worldb.WorldB(ctx, plan['world'])
        w.start_provider(role_components=None)
        prov = w.provider
        A = w.mdib.sdc_definitions.Actions
        mgr = prov._subscriptions_managers['StateEvent']
        svc = prov.hosted_services.dpws_hosted_services['StateEvent']
        sub_path = f'/{prov.path_prefix}/{svc.path_element}'
        set_path = f'/{prov.path_prefix}/{prov.hosted_services.dpws_hosted_services["Set"].path_element}'
        paddr = (worldb.PROVIDER_IP, prov._http_server.server_port)
        base = f'http://{paddr[0]}:{paddr[1]}'
        modes = {}  # subscription k -> behaviour
        stalls_seen = []  # subscriptions whose endpoint was told to stall (deliveries then block up to the socket timeout)

        def behaviour(rec):
            path = rec.msg.path or ''
            try:
                k = int(path.rsplit('/', 1)[-1][1:]) if path.rsplit('/', 1)[-1][:1] in 'ne' else None
            except ValueError:
                k = None
            m = modes.get(k)
            if m is None or m[0] in ('ok', 'refuse'):
                return ('ok',)
            return tuple(m)

        eps_, clients = [], []
        for i in range(plan['nsub']):
            eps_.append(peers.Endpoint(SUB_IPS[i], f'sub{i}', behaviour=behaviour))
            clients.append(peers.RawClient(SUB_IPS[i], paddr))
        other_ep = peers.Endpoint('10.0.1.9', 'endto', behaviour=behaviour)
        subs: list[Sub] = []
        commits = []  # (t0, t1, versions)
        msgid = [0]

        def mid():
            msgid[0] += 1
            return f'urn:uuid:00000000-0000-0000-0000-{msgid[0]:012d}'

        def audit(where):
            p = []
            for m_ in prov._subscriptions_managers.values():
                with m_._subscriptions.lock:  # housekeeping may be in the middle of a removal
                    p += canon.audit_table(m_._subscriptions, 'subscriptions')
            if p:
                ctx.violation('C08.table', p[0].split('[')[0], f'{where}: {p[:3]}')

        def action_uri(name):
            return getattr(A, name).value if hasattr(A, name) else name

        def mgr_request(sub, kind, expires=None, bogus=False):
            cl = clients[sub.owner]
            addr = sub.mgr_addr
            refs = list(sub.mgr_ref)
            if bogus:
                if refs:
                    el = etree.fromstring(etree.tostring(refs[0]))
                    el.text = 'deadbeef' * 4
                    refs = [el]
                else:
                    addr = addr.rsplit('/', 1)[0] + '/' + 'deadbeef' * 4
            path = '/' + addr.split('/', 3)[3]
            body = peers.mk_mgr_request(kind, addr, mid(), refs, expires)
            t_req = s.now
            r = peers.SoapResponse(cl.post(path, body))
            return r, t_req, s.now

        def do_tx(op):
            t0 = s.now
            step0 = s.steps
            v0 = w.mdib.mdib_version
            with worldb.node(worldb.PROVIDER_IP):
                try:
                    W.apply_op(w.mdib, op['tx'])
                except W.OpRejected:
                    pass
                except Exception as ex:  # noqa: BLE001
                    # an exception from the commit (sending) surfaced in the application's transaction
                    ctx.violation('C08.iff', f'commit-raised:{type(ex).__name__}',
                                  f'transaction raised {ex!r} while notifications were being delivered')
            w.settle(1.0)
            commits.append((t0, s.now, list(range(v0 + 1, w.mdib.mdib_version + 1)), step0))
            ctx.probe('commits', w.mdib.mdib_version - v0)

        for op in plan['ops']:
            s.reseed('op', op['id'])
            k = op['k']
            t_op0 = s.now
            if k == 'subscribe':
                ctx.probe('subscribe')
                kk = len(subs)
                owner = op['owner'] % plan['nsub']
                sub = Sub(kk, owner, [action_uri(a) for a in op['actions']], op['expires'], op['end_to'])
                subs.append(sub)
                ep = eps_[owner]
                end_to = None
                if op['end_to'] == 'own':
                    end_to = ep.url(f'/e{kk}')
                elif op['end_to'] == 'other':
                    end_to = other_ep.url(f'/e{kk}')
                nref = eref = None
                if op.get('ref'):
                    nref = etree.Element('{urn:dsim}SubId')
                    nref.text = f'n{kk}'
                    eref = etree.Element('{urn:dsim}SubId')
                    eref.text = f'e{kk}'
                the_path = set_path if op.get('svc') == 'Set' else sub_path
                body = peers.mk_subscribe(base + the_path, ep.url(f'/n{kk}'), sub.actions, op['expires'], end_to, mid(),
                                          nref, eref if end_to else None, sep=op.get('sep', ' '))
                hdr = {} if op['accept'] is None else {'Accept-Encoding': op['accept']}
                t_req = s.now
                r = peers.SoapResponse(clients[owner].post(the_path, body, hdr))
                if r.status == 200 and not r.is_fault and r.find('.//wse:SubscriptionManager/wsa:Address') is not None:
                    sub.accepted = True
                    sub.t_req, sub.t_resp = t_req, s.now
                    sub.step_resp = s.steps
                    sub.granted = r.expires()
                    sub.grants.append((s.steps, t_req, s.now, sub.granted))
                    sub.mgr_addr = r.find('.//wse:SubscriptionManager/wsa:Address').text.strip()
                    rp = r.find('.//wse:SubscriptionManager/wsa:ReferenceParameters')
                    sub.mgr_ref = list(rp) if rp is not None else []
                    limit = plan['world']['max_subscription_duration']
                    if op['expires'] is not None:
                        limit = min(limit, op['expires'])
                    if sub.granted is None or sub.granted > limit + 0.011:
                        ctx.violation('C08.expiry', 'granted-exceeds-limit',
                                      f'Subscribe asked for {op["expires"]}, maximum is '
                                      f'{plan["world"]["max_subscription_duration"]}, granted {sub.granted}')
                else:
                    ctx.probe('subscribe_rejected')
            elif k == 'tx':
                do_tx(op)
            elif k == 'tx_unsub' and len([x for x in subs if x.accepted]) >= 2:
                sub = subs[op['sub'] % len(subs)]
                shares_endpoint_with_faulty = any(o.owner == sub.owner and modes.get(o.k, ['ok'])[0] != 'ok' for o in subs)
                if not sub.accepted or sub.unsub_resp is not None or shares_endpoint_with_faulty:
                    # (a slow / stalled subscription behind the same endpoint would hold the pooled connection: the send
                    # to this subscription could then be decided before and written long after the Unsubscribe)
                    do_tx(op)
                    continue
                ctx.probe('unsubscribe_during_delivery')
                saved_modes = dict(modes)
                for other in subs:
                    if other is not sub and other.owner != sub.owner and modes.get(other.k, ['ok'])[0] == 'ok':
                        modes[other.k] = ['slow', op['slow_d']]
                t = threading.Thread(target=do_tx, args=(op,), name='tx')
                t.start()
                s.sleep(op['unsub_delay'])
                try:
                    r, t_req, t_resp = mgr_request(sub, 'Unsubscribe')
                    if r.status == 200 and not r.is_fault:
                        sub.unsub_resp = t_resp
                        sub.unsub_step = s.steps
                        sub.unsub_answered = clients[sub.owner].resp_sent
                except OSError:
                    pass
                t.join()
                modes.clear()
                modes.update(saved_modes)
            elif k in ('renew', 'getstatus', 'unsubscribe') and subs:
                sub = subs[op['sub'] % len(subs)]
                if not sub.accepted:
                    continue
                ctx.probe(k)
                kind = {'renew': 'Renew', 'getstatus': 'GetStatus', 'unsubscribe': 'Unsubscribe'}[k]
                dead = sub.definitely_dead(s.now)
                was_dead_for = None
                if sub.unsub_resp is not None:
                    was_dead_for = s.now - sub.unsub_resp
                elif dead == 'expired':
                    was_dead_for = s.now - (sub.t_resp + sub.granted)
                r, t_req, t_resp = mgr_request(sub, kind, op.get('expires'))
                ok = r.status == 200 and not r.is_fault
                # (housekeeping removes expired / unsubscribed subscriptions within GRACE - unless a delivery is stalled:
                # a sender that waits for a silent peer can keep the subscription table busy up to the socket timeout)
                grace = GRACE + (3 * (int(plan['world']['max_subscription_duration'] * 1.2) + 1) if stalls_seen else 0)
                if was_dead_for is not None and was_dead_for > grace and ok and not sub.failures:
                    ctx.violation('C08.unknown', f'{kind}:answered-for-dead-subscription:{dead}',
                                  f'{kind} for a subscription that is {dead} since {was_dead_for:.2f}s was answered '
                                  f'successfully')
                if not ok and not r.is_fault:
                    ctx.violation('C08.unknown', f'{kind}:no-fault', f'{kind} rejected with HTTP {r.status} but without '
                                                                    f'a SOAP fault')
                if dead is None and not sub.failures and sub.definitely_alive(t_req, t_resp) and not ok:
                    ctx.violation('C08.expiry', f'{kind}:fault-for-live-subscription',
                                  f'{kind} for a live subscription (granted {sub.granted}s, {t_resp - sub.t_resp:.2f}s ago) '
                                  f'was answered with a fault')
                if ok and kind in ('Renew', 'GetStatus'):
                    rem = r.expires()
                    if kind == 'Renew':
                        limit = plan['world']['max_subscription_duration']
                        if op.get('expires') is not None:
                            limit = min(limit, op['expires'])
                        if rem is None or rem > limit + 0.011:
                            ctx.violation('C08.expiry', 'renew-exceeds-limit', f'Renew({op.get("expires")}) granted {rem}, '
                                                                               f'limit {limit}')
                        if sub.unsub_resp is None:  # a successful RenewResponse is a new grant, whatever was before
                            sub.t_req, sub.t_resp, sub.granted = t_req, t_resp, rem
                            sub.grants.append((s.steps, t_req, t_resp, rem))
                    elif dead is None and sub.unsub_resp is None and not sub.failures:
                        # (a remaining time is never negative: right at the expiry instant the answer is 0)
                        lo = max(0.0, sub.granted - (t_resp - sub.t_req) - 0.02)
                        hi = max(0.0, sub.granted - (t_req - sub.t_resp)) + 0.02
                        if rem is None or not (lo <= rem <= hi):
                            ctx.violation('C08.expiry', 'getstatus-inconsistent',
                                          f'GetStatus reports {rem}s remaining, expected between {lo:.2f} and {hi:.2f} '
                                          f'(granted {sub.granted}s)')
                if ok and kind == 'Unsubscribe' and sub.unsub_resp is None:
                    sub.unsub_resp = t_resp
                    sub.unsub_step = s.steps
                    sub.unsub_answered = clients[sub.owner].resp_sent
            elif k == 'unknown' and subs:
                sub = subs[op['sub'] % len(subs)]
                if not sub.accepted:
                    continue
                ctx.probe('unknown_id')
                all_subs = lambda: [o for m_ in prov._subscriptions_managers.values() for o in m_._subscriptions.objects]  # noqa: E731
                before = sorted(o.identifier_uuid.hex for o in all_subs())
                if op['how'] == 'stale':
                    continue  # stale identifiers are exercised by renew/getstatus/unsubscribe on dead subscriptions
                r, _, _ = mgr_request(sub, op['req'], None, bogus=True)
                if r.status == 200 and not r.is_fault:
                    ctx.violation('C08.unknown', f'{op["req"]}:unknown-id-accepted',
                                  f'{op["req"]} naming an unknown subscription was answered successfully')
                if not r.is_fault:
                    ctx.violation('C08.unknown', f'{op["req"]}:no-fault',
                                  f'{op["req"]} naming an unknown subscription answered with HTTP {r.status} without fault')
                after = sorted(o.identifier_uuid.hex for o in all_subs())
                if set(before) - set(after) and not any(sb.definitely_dead(s.now) or sb.failures for sb in subs):
                    ctx.violation('C08.unknown', 'table-changed', f'request with unknown identifier removed subscriptions')
            elif k == 'advance':
                t_before = s.now
                s.sleep(op['t'])
                for sb in subs:
                    if sb.accepted and t_before < sb.t_resp + sb.granted <= s.now:
                        ctx.probe('expiry_crossed')
                        ctx.nontrivial = True
            elif k == 'behaviour' and subs:
                sub = subs[op['sub'] % len(subs)]
                mode = op['mode']
                old = modes.get(sub.k)
                if old and old[0] == 'refuse':
                    w.net.refuse.discard(eps_[sub.owner].addr)
                modes[sub.k] = mode
                if mode[0] in ('stall', 'close'):
                    stalls_seen.append(sub.k)
                if mode[0] == 'refuse':
                    w.net.refuse.add(eps_[sub.owner].addr)
            elif k == 'heal':
                for kk in list(modes):
                    modes[kk] = ['ok']
                w.net.refuse.clear()
            elif k == 'clock_jump':
                ctx.probe('clock_jump')
                s.wall_skew += op['dt']
            # failures observed by subscribers during this op
            self._note_failures(ctx, subs, eps_, other_ep, modes, w, t_op0)
            audit(f'after op {op["id"]} {k}')
        # ---------- stop
        t_stop0 = s.now
        tx_thread = None
        if plan['stop'].get('tx') is not None and plan['stop']['send_end']:
            ctx.probe('commit_during_stop')
            for sb in subs:
                if modes.get(sb.k, ['ok'])[0] == 'ok':
                    modes[sb.k] = ['slow', plan['stop']['slow_d']]

            early = plan['stop']['tx_delay'] < 0

            def late_tx():
                if not early:
                    s.sleep(plan['stop']['tx_delay'] * plan['stop']['slow_d'])
                do_tx(plan['stop'])
            if early:
                for m_ in prov._subscriptions_managers.values():
                    s.stall_after(m_._subscriptions.lock, 0.8, (0.3, 1.5))
            tx_thread = threading.Thread(target=late_tx, name='tx-during-stop')
            tx_thread.start()
            if early:
                s.sleep(0.002)
        if plan['stop'].get('end_status') and plan['stop']['send_end'] and tx_thread is None:
            # one live subscriber answers its SubscriptionEnd (and anything else from now on) with an HTTP error
            live = [sb for sb in subs if sb.accepted and sb.unsub_resp is None and modes.get(sb.k, ['ok'])[0] == 'ok']
            if len(live) >= 2:
                ctx.probe('end_answered_with_http_error')
                modes[live[plan['stop']['end_status'][1] % len(live)].k] = ['status', plan['stop']['end_status'][0]]
        finished, exc = w.stop_provider_guarded(plan['stop']['send_end'], max_virtual=plan['world']['max_subscription_duration'] * 8 + 120)
        if tx_thread is not None and finished:
            tx_thread.join()
        if finished and exc is not None:
            ctx.violation('C08.end', f'stop_all-raised:{type(exc).__name__}',
                          f'SdcProvider.stop_all() raised {exc!r}: the subscriptions that come later in its loop do not get '
                          f'their SubscriptionEnd')
        if not finished:
            ctx.violation('C08.end', 'stop_all-does-not-return', 'SdcProvider.stop_all() did not return (live subscriptions '
                                                                 'never get their SubscriptionEnd):\n' + s.stacks(limit=10, only_forever=True)[:6000])
        t_stop1 = s.now
        s.sleep(0.5)
        self._note_failures(ctx, subs, eps_, other_ep, modes, w, t_stop0)
        ctx.probe('stop_end')
        if s.escaped:
            ctx.violation('C08.iff', f'exception-in-library-thread:{s.escaped[0][1].split("(")[0]}', str(s.escaped[0])[:1500])
        with s.no_preempt():
            self._judge(ctx, plan, w, subs, eps_, other_ep, commits, A, t_stop0, t_stop1)

    @staticmethod
    def _endpoint_busy_throughout(endpoints, rec, t_from):
        """True if the endpoint that received rec was serving other requests without a gap from t_from until rec was sent"""
        ep = next((e for e in endpoints if any(r is rec for r in e.received)), None)
        if ep is None:
            return False
        spans = sorted((r.sent_t, r.t_done if r.t_done is not None else r.t) for r in ep.received if r is not rec)
        t = t_from
        for a, b in spans:
            if b <= t:
                continue
            if a > t + 0.002:
                break
            t = max(t, b)
            if t >= rec.sent_t - 0.002:
                return True
        return t >= rec.sent_t - 0.002

    def _note_failures(self, ctx, subs, eps_, other_ep, modes, w, t_op0):
        """a subscriber knows that a delivery to it failed (it answered with an error / broke the connection itself).
        Connection-level faults affect every subscription that shares the connection (same NotifyTo host:port)."""
        by_k = {sb.k: sb for sb in subs}
        for ep in eps_ + [other_ep]:
            for rec in ep.received:
                if rec.behaviour[0] == 'ok':
                    continue
                last = (rec.msg.path or '').rsplit('/', 1)[-1]
                try:
                    sb = by_k.get(int(last[1:]))
                except ValueError:
                    sb = None
                if sb is None:
                    continue
                affected = [sb]
                if rec.behaviour[0] != 'status':
                    # everybody who shares that connection (the provider pools one client per host:port)
                    if ep is other_ep:
                        affected = [o for o in subs if o.end_kind == 'other']
                    else:
                        affected = [o for o in subs if o.owner == sb.owner]
                for o in affected:
                    if o.fail_t is None or rec.t < o.fail_t:
                        o.fail_t = min(rec.t, t_op0)
                    o.failures += 1
                    ctx.nontrivial = True
        if w.net.fault_counts.get('refuse'):
            for sb in subs:
                m = modes.get(sb.k)
                if m and m[0] == 'refuse':
                    for o in subs:
                        if o.owner == sb.owner and o.fail_t is None:
                            o.fail_t = t_op0
                            o.failures += 1
                            ctx.nontrivial = True

    def _judge(self, ctx, plan, w, subs, eps_, other_ep, commits, A, t_stop0, t_stop1):
        hist = w.hist
        dmr = A.DescriptionModificationReport.value
        end_action = 'http://schemas.xmlsoap.org/ws/2004/08/eventing/SubscriptionEnd'
        # index notifications per subscription: path /n<k>
        per_sub = {sb.k: [] for sb in subs}
        ends = {sb.k: [] for sb in subs}
        for ep in eps_ + [other_ep]:
            for rec in ep.received:
                last = (rec.msg.path or '').rsplit('/', 1)[-1]
                try:
                    kk = int(last[1:])
                except ValueError:
                    continue
                if kk not in per_sub:
                    continue
                if rec.action == end_action:
                    ends[kk].append((ep, rec, last[0]))
                else:
                    v = None
                    if rec.xml is not None:
                        body = rec.xml.find(f'{{{NS["s12"]}}}Body')
                        if body is not None and len(body):
                            try:
                                v = int(body[0].get('MdibVersion', '0'))
                            except ValueError:
                                v = None
                    per_sub[kk].append((rec, v))
        commit_start = {vv: t0 for t0, _t1, versions, _st in commits for vv in versions}
        for sb in subs:
            if not sb.accepted:
                if per_sub[sb.k]:
                    ctx.violation('C08.iff', 'sent-to-dead:not-accepted', f'subscription {sb.k} was never accepted but '
                                                                          f'received {len(per_sub[sb.k])} notifications')
                continue
            flt = set(sb.actions)
            for rec, v in per_sub[sb.k]:
                if rec.action not in flt:
                    ctx.violation('C08.iff', 'action-not-in-filter', f'subscription {sb.k} (filter {sorted(flt)}) received '
                                                                     f'{rec.action}')
                if sb.unsub_answered is not None and rec.sent_t > sb.unsub_answered[0] + SEND_MARGIN and \
                        not self._endpoint_busy_throughout(eps_ + [other_ep], rec, sb.unsub_answered[0]):
                    ctx.violation('C08.iff', 'sent-to-dead:after-unsubscribe-was-answered',
                                  f'subscription {sb.k}: the provider put {rec.action} on the wire at t={rec.sent_t:.3f}, '
                                  f'{rec.sent_t - sb.unsub_answered[0]:.3f}s after it had answered the Unsubscribe '
                                  f'(t={sb.unsub_answered[0]:.3f})')
                # a notification of a commit that STARTED after the SubscriptionEnd exchange of this subscription was
                # complete (the decision to send it was certainly taken after the subscription had ended)
                end_done = min((e[1].t_done for e in ends[sb.k] if e[1].t_done is not None), default=None)
                c_start = commit_start.get(v)
                if end_done is not None and rec.sent_t > end_done + 0.005 and \
                        not self._endpoint_busy_throughout(eps_ + [other_ep], rec, end_done):
                    # (a send that was decided before the end message waits for the pooled connection of that peer and
                    # goes out the instant it is free - possibly after further exchanges with other subscriptions behind
                    # the same endpoint: only a send after the endpoint had been idle in between was decided too late;
                    # threads are only stalled where they release the subscription table lock, never between the
                    # validity check and the write)
                    ctx.violation('C08.iff', 'sent-to-dead:after-subscription-end',
                                  f'subscription {sb.k}: the provider put {rec.action} on the wire at t={rec.sent_t:.3f}, '
                                  f'{rec.sent_t - end_done:.3f}s after the SubscriptionEnd of this subscription had been '
                                  f'delivered and answered (t={end_done:.3f})')
                if end_done is not None and c_start is not None and c_start > end_done + 0.01:
                    ctx.violation('C08.iff', 'sent-to-dead:after-subscription-end',
                                  f'subscription {sb.k}: received {rec.action} of commit {v}, which started at '
                                  f't={c_start:.3f}, {c_start - end_done:.3f}s after the SubscriptionEnd of this '
                                  f'subscription had been delivered and answered (t={end_done:.3f})')
                if rec.t > t_stop1 + 0.2:
                    ctx.violation('C08.end', 'notification-after-stop', f'subscription {sb.k} received {rec.action} after '
                                                                       f'stop_all')
            for t0, t1, versions, step0 in commits:
                for v in versions:
                    res = hist.results.get(v)
                    if res is None:
                        continue
                    acts = [getattr(A, a).value for c, a in CAT_ACTION.items() if res[c]]
                    if res['descr_created'] or res['descr_updated'] or res['descr_deleted']:
                        acts.append(dmr)
                    for act in acts:
                        got = [rec for rec, vv in per_sub[sb.k] if vv == v and rec.action == act]
                        dead = sb.definitely_dead(t0, step0)
                        if act not in flt:
                            continue  # checked above
                        if dead:
                            ctx.probe('forbidden_checked')
                            if got:
                                ctx.violation('C08.iff', f'sent-to-dead:{dead}',
                                              f'subscription {sb.k} is {dead} (granted {sb.granted}s at t={sb.t_resp:.2f}, '
                                              f'unsubscribed at {sb.unsub_resp}) but received {act} of commit {v} '
                                              f'made at t={t0:.2f}')
                        elif sb.definitely_alive(t0, t1, step0):
                            ctx.probe('expected_deliveries')
                            if len(got) != 1:
                                ctx.violation('C08.iff', f'{"missing" if not got else "duplicate"}:live-subscription',
                                              f'subscription {sb.k} is alive (granted {sb.granted}s at t={sb.t_req:.2f}) and '
                                              f'its filter contains {act}, but {len(got)} notification(s) of commit {v} '
                                              f'(t={t0:.2f}..{t1:.2f}) arrived')
            # SubscriptionEnd
            n_end = len(ends[sb.k])
            if not plan['stop']['send_end']:
                if n_end:
                    ctx.violation('C08.end', 'end-sent-although-switched-off', f'subscription {sb.k} received '
                                                                               f'SubscriptionEnd although end messages were switched off')
                continue
            dead = sb.definitely_dead(t_stop0)
            if dead:
                if n_end:
                    ctx.violation('C08.end', f'end-to-dead:{dead}', f'subscription {sb.k} is {dead} but received '
                                                                    f'{n_end} SubscriptionEnd message(s)')
            elif sb.definitely_alive(t_stop0, t_stop1):
                if n_end != 1:
                    ctx.violation('C08.end', f'end-count:{n_end}', f'live subscription {sb.k} received {n_end} '
                                                                   f'SubscriptionEnd messages')
            if n_end > 1:
                ctx.violation('C08.end', 'end-duplicate', f'subscription {sb.k} received {n_end} SubscriptionEnd messages')
            for ep, rec, kindch in ends[sb.k]:
                want_ep = eps_[sb.owner] if sb.end_kind in ('none', 'own') else other_ep
                want_kind = 'n' if sb.end_kind == 'none' else 'e'
                if ep is not want_ep or kindch != want_kind:
                    ctx.violation('C08.end', f'end-wrong-address:{sb.end_kind}',
                                  f'SubscriptionEnd of subscription {sb.k} (EndTo={sb.end_kind}) arrived at {ep.name}'
                                  f'{rec.msg.path}, expected {want_ep.name}/{want_kind}{sb.k}')
                to = rec.xml.find(f'{{{NS["s12"]}}}Header/{{{NS["wsa"]}}}To') if rec.xml is not None else None
                if to is not None and to.text and not to.text.strip().endswith(f'/{want_kind}{sb.k}'):
                    ctx.violation('C08.end', 'end-wrong-wsa-to', f'SubscriptionEnd of subscription {sb.k} carries '
                                                                 f'wsa:To={to.text}')

    @staticmethod
    def _failed_before(sb, per_sub, eps_, t1):
        return bool(sb.failures)


CHECK = C08()
