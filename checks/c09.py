"""C09 - operation invocations follow the BICEPS invocation-state protocol end to end (world B: provider with the
tutorial role providers + scripted handlers, 1-3 consumers behind middleboxes, a recording OperationInvokedReport
subscriber)."""
from __future__ import annotations

import threading
from decimal import Decimal

from lxml import etree

from dsim import canon, peers, proxy, worldb
from dsim.base import CheckBase, draw_sched_config
from dsim.xsd import NS

FINAL = ('Fin', 'FinMod', 'Fail', 'Cnclld', 'CnclldMan')
STRING_OPS = ['DN_SET', 'SET_NTP_SRV_mds0', 'SET_TZONE_mds0', 'enumstring.ch0.vmd1_sco_0', 'string.ch0.vmd1_sco_0']
VALUE_OPS = ['numeric.ch0.vmd1_sco_0']
ACTIVATE_OPS = ['actop.mds0_sco_0', 'actop.vmd1_sco_0', 'AP__ON', 'AP__CANCEL']


def parts_of(xml):
    """[(transaction id, state, error, error message)] of an OperationInvokedReport envelope"""
    out = []
    for p in xml.iter(f'{{{NS["msg"]}}}ReportPart'):
        info = p.find(f'{{{NS["msg"]}}}InvocationInfo')
        if info is None:
            continue
        tid = info.find(f'{{{NS["msg"]}}}TransactionId')
        st = info.find(f'{{{NS["msg"]}}}InvocationState')
        er = info.find(f'{{{NS["msg"]}}}InvocationError')
        em = info.find(f'{{{NS["msg"]}}}InvocationErrorMessage')
        out.append((int(tid.text), st.text.strip(), None if er is None else er.text, None if em is None else em.text))
    return out


class C09(CheckBase):
    id = 'C09'
    level = 'exploration'
    line_allow = ('sdc11073/consumer/operations.py', 'sdc11073/provider/sco.py', 'sdc11073/provider/porttypes/')
    rule = ('one evaluation = one simulated session: 1-3 consumers issue 6-28 seeded Set/Activate/SetContextState calls '
            '(also unknown operation handles and bursts) against operations whose handlers are scripted to succeed, return a '
            'failed state, raise or take virtual time, with direct or queued processing; middleboxes delay, drop or duplicate '
            'OperationInvokedReports and the HTTP response can be delayed past the reports; a recording subscriber sees the '
            'provider\'s emission order; non-trivial = a report was reordered/dropped/duplicated relative to the response or '
            '>= 2 consumers called concurrently; distinct = event-log digest')
    components = {'real': ['SdcProvider', 'SetService/ContextService port types', 'ScoOperationsRegistry + worker', 'provider '
                           'operations', 'tutorial role providers', 'SdcConsumer', 'OperationsManager', 'service clients',
                           'subscription managers', 'HTTP stacks'],
                  'stub': ['operation handlers (scripted: ok / failed state / raise / slow)', 'middlebox', 'recording subscriber',
                           'sockets', 'aiohttp session']}
    assumptions = ['a Future is only required to complete if its final report was delivered to the consumer',
                   'the recording subscriber defines the provider-side emission order of reports']
    expected_probes = ['calls', 'unknown_op', 'direct', 'queued', 'handler_raise', 'handler_failed', 'report_before_response',
                       'dup', 'drop', 'futures_completed']
    max_steps = 8_000_000

    def budget(self, tier):
        return {'quick': {'runs': 200, 'wall': 85}, 'thorough': {'runs': 10000, 'wall': 1800}}[tier]

    def generate(self, rng, tier):
        cfg = worldb.draw_config(rng, periodic=None, mdib='tns', max_subscription_duration=7200,
                                 frag_max=rng.choice([None, None, 4000]))
        ncons = rng.choice([1, 1, 2, 3])
        calls = []
        n = rng.randint(6, 28 if tier == 'thorough' else 14)
        for i in range(n):
            kind = rng.choice(['string', 'string', 'value', 'activate', 'unknown', 'context'])
            c = {'id': i, 'c': rng.randrange(ncons), 'kind': kind,
                 'mode': rng.choice(['real', 'ok', 'ok', 'failed', 'raise', 'raise_ctrl', 'slow']),
                 'delayed': rng.random() < 0.6, 'resp_delay': rng.choice([0, 0, 0.001, 0.002, 0.002, 0.003, 0.05, 0.3]),
                 'wait': rng.random() < 0.7, 'forget': rng.random() < 0.2}
            if kind == 'string':
                c['h'] = rng.choice(STRING_OPS)
                c['arg'] = rng.choice(['a', '169.254.0.1', 'UTC0', 'ÄÖ', ''])
            elif kind == 'value':
                c['h'] = rng.choice(VALUE_OPS)
                c['arg'] = str(rng.randint(0, 100))
            elif kind == 'activate':
                c['h'] = rng.choice(ACTIVATE_OPS)
            elif kind == 'unknown':
                c['h'] = 'no.such.operation'
            else:
                c['h'] = 'opSetPatCtx'
                c['mode'] = 'real'
                c['given'] = rng.choice(['Ann', 'Bob', 'Zoë'])
            calls.append(c)
        if rng.random() < 0.25:
            burst_h = rng.choice(STRING_OPS)
            base = len(calls)
            for j in range(rng.randint(8, 14)):
                calls.append({'id': base + j, 'c': 0, 'kind': 'string', 'h': burst_h, 'arg': f'b{j}', 'mode': 'slow',
                              'delayed': True, 'resp_delay': 0, 'wait': False})
        fates = {}
        rate = rng.choice([0.0, 0.1, 0.25])
        for ci in range(ncons):
            f = {}
            for i in range(len(calls) * 6 + 10):
                if rng.random() < rate:
                    k = rng.choice(['drop', 'dup', 'delay', 'delay', 'merge', 'merge'])
                    f[str(i)] = {'drop': ['drop'], 'dup': ['dup', 2], 'delay': ['delay', rng.randint(1, 3)],
                                 'merge': ['merge']}[k]
            fates[str(ci)] = f
        return {'sched': draw_sched_config(rng), 'world': cfg, 'ncons': ncons, 'calls': calls, 'fates': fates,
                'slow_t': rng.choice([0.05, 0.5, 1.5])}

    # ------------------------------------------------------------------
    def body(self, ctx):
        plan = ctx.plan
        s = ctx.s
        w = worldb.WorldB(ctx, plan['world'])
        w.start_provider(role_components='example')
        prov = w.provider
        A = w.mdib.sdc_definitions.Actions
        from sdc11073.provider.operations import ExecuteResult
        mt = w.mdib.data_model.msg_types
        # recording subscriber for OperationInvokedReport
        svc = prov.hosted_services.dpws_hosted_services['Set']
        sub_path = f'/{prov.path_prefix}/{svc.path_element}'
        paddr = (worldb.PROVIDER_IP, prov._http_server.server_port)
        rec_ep = peers.Endpoint('10.0.1.1', 'recorder')
        rc = peers.RawClient('10.0.1.1', paddr)
        r = peers.SoapResponse(rc.post(sub_path, peers.mk_subscribe(f'http://{paddr[0]}:{paddr[1]}{sub_path}', rec_ep.url('/n0'),
                                                                   [A.OperationInvokedReport.value], 3600, msg_id='urn:uuid:rec')))
        if r.status != 200 or r.is_fault:
            raise RuntimeError('recorder could not subscribe')
        consumers, mboxes = [], []
        for ci in range(plan['ncons']):
            c, cm = w.start_consumer(ci, init_mdib=True)
            consumers.append((c, cm))
            mboxes.append(proxy.Middlebox((worldb.CONSUMER_IPS[ci], c._http_server.server_port), plan['fates'][str(ci)]))
        original = {}
        mode_of_tx = {}
        handling = {'mode': {}}  # operation handle -> scripted mode for the next executions

        def mode_of(params, op):
            # the scripted behaviour travels inside the request argument ("<text>|<mode>|<call id>")
            arg = params.operation_request.argument
            if isinstance(arg, list) and arg:
                arg = getattr(arg[0], 'ArgValue', arg[0])
            if isinstance(arg, str) and arg.count('|') >= 2:
                return arg.split('|')[-2]
            if isinstance(arg, Decimal):
                return {1: 'real', 2: 'ok', 3: 'failed', 4: 'raise', 5: 'slow', 6: 'raise_ctrl'}.get(int((arg * 10) % 10), 'real')
            return 'real'

        def mk_handler(op, orig):
            def handler(params):
                mode = mode_of(params, op)
                if mode == 'real':
                    return orig(params)
                if mode == 'slow':
                    s.sleep(plan['slow_t'])
                    return ExecuteResult(op.operation_target_handle, mt.InvocationState.FINISHED)
                if mode == 'failed':
                    ctx.probe('handler_failed')
                    return ExecuteResult(op.operation_target_handle, mt.InvocationState.FAILED)
                if mode == 'raise':
                    ctx.probe('handler_raise')
                    raise RuntimeError('scripted handler failure')
                if mode == 'raise_ctrl':
                    # the text of the exception quotes a raw device reply: characters XML cannot carry
                    ctx.probe('handler_raise')
                    ctx.probe('handler_raise_control_chars')
                    raise RuntimeError('device replied \x00\x1b[31mERR\x07 \ufffe')
                return ExecuteResult(op.operation_target_handle, mt.InvocationState.FINISHED)
            return handler

        for reg in prov._sco_operations_registries.values():
            for oh, op in reg._registered_operations.items():
                original[oh] = op._operation_handler
                op._operation_handler = mk_handler(op, op._operation_handler)
        results = []  # (call, future or exception, t_call, snapshot-before for unknown)
        lock = threading.Lock()

        def do_call(ci, call):
            c, cm = consumers[ci]
            op = prov.get_operation_by_handle(call['h'])
            if op is not None and call['kind'] != 'context':
                op.delayed_processing = bool(call['delayed'])
                handling['mode'][call['h']] = call['mode']
            ctx.probe('calls')
            if op is not None:
                ctx.probe('queued' if op.delayed_processing else 'direct')
            # delay the HTTP response (not the notifications) on this consumer's request connection
            for conn in w.net.conns:
                if conn.client_addr[0] == worldb.CONSUMER_IPS[ci] and conn.server_addr == paddr:
                    conn.s2c.extra_latency = call['resp_delay']
            before = None
            if call['kind'] == 'unknown':
                ctx.probe('unknown_op')
                with s.no_preempt():
                    before = canon.snap(w.mdib)
            try:
                with worldb.node(worldb.CONSUMER_IPS[ci]):
                    if call['kind'] in ('string', 'unknown'):
                        fut = c.client('Set').set_string(call['h'], f"{call.get('arg', 'x')}|{call['mode']}|{call['id']}")
                    elif call['kind'] == 'value':
                        code = {'real': 1, 'ok': 2, 'failed': 3, 'raise': 4, 'slow': 5, 'raise_ctrl': 6}[call['mode']]
                        fut = c.client('Set').set_numeric_value(call['h'], Decimal(f"{call['id']}.{code}"))
                    elif call['kind'] == 'activate':
                        a = mt.Argument()
                        a.ArgValue = f"x|{call['mode']}|{call['id']}"
                        fut = c.client('Set').activate(call['h'], [a])
                    else:
                        pat = cm.xtra.mk_proposed_state('PC.mds0') if hasattr(cm.xtra, 'mk_proposed_state') else None
                        pat.Handle = 'PC.mds0'  # Handle == DescriptorHandle: a new context state
                        pat.CoreData.Givenname = call['given']
                        pat.ContextAssociation = w.mdib.data_model.pm_types.ContextAssociation.ASSOCIATED
                        fut = c.client('Context').set_context_state('opSetPatCtx', [pat])
            except Exception as ex:  # noqa: BLE001
                fut = ex
            if call.get('forget') and not isinstance(fut, Exception):
                # fire and forget: the application drops the result handle at once
                ctx.probe('forgotten_futures')
                fut = None
                return
            with lock:
                results.append((call, fut, s.now, before))
            if call.get('wait') and not isinstance(fut, Exception):
                try:
                    fut.result(timeout=6.0)
                except Exception:  # noqa: BLE001
                    pass

        def caller(ci):
            for call in plan['calls']:
                if call['c'] == ci:
                    s.reseed('call', call['id'])
                    do_call(ci, call)

        if plan['ncons'] == 1:
            caller(0)
        else:
            ctx.nontrivial = True
            ths = [threading.Thread(target=caller, args=(i,), name=f'caller{i}') for i in range(plan['ncons'])]
            for t in ths:
                t.start()
            for t in ths:
                t.join()
        s.sleep(plan['slow_t'] * 16 + 3.0)
        for mb in mboxes:
            mb.flush()
        w.settle(5.0)
        s.sleep(1.0)
        if s.escaped:
            e = s.escaped[0]
            ctx.violation('C09.future', f'exception-in-library-thread:{e[1].split("(")[0]}', str(e)[:1500])
        with s.no_preempt():
            self._judge(ctx, plan, w, rec_ep, mboxes, results, consumers)

    # ------------------------------------------------------------------
    def _judge(self, ctx, plan, w, rec_ep, mboxes, results, consumers):
        # provider-side emission order (recording subscriber)
        emitted = {}  # txid -> [(state, err, msg)]
        for rec in rec_ep.received:
            if rec.xml is None:
                continue
            for tid, st, er, em in parts_of(rec.xml):
                emitted.setdefault(tid, []).append((st, er, em))
        # what each consumer was delivered, in delivery order
        delivered = []
        for mb in mboxes:
            seq = []
            for n in mb.forwarded:
                raw = mb.captured[n]
                i = raw.find(b'\r\n\r\n')
                try:
                    from dsim import httpmsg
                    m = httpmsg.parse_message(raw, True)
                    body = httpmsg.decode_body(m)
                    xml = etree.fromstring(body)
                except Exception:  # noqa: BLE001
                    continue
                if b'OperationInvokedReport' not in body:
                    continue
                for tid, st, er, em in parts_of(xml):
                    seq.append((tid, st, n))
            delivered.append(seq)
            if len(set(mb.forwarded)) < len(mb.forwarded):
                ctx.nontrivial = True
        seen_tids = {}
        last_tid_per_consumer = {}
        for call, fut, t_call, before in results:
            ci = call['c']
            if isinstance(fut, Exception):
                ctx.violation('C09.sequence', f'request-failed:{type(fut).__name__}:{call["kind"]}:{call["mode"]}',
                              f'{call}: the request was not answered with an invocation state: {fut!r}')
                continue
            done = fut.done()
            res = fut.result(0) if done else None
            # the response
            if res is not None:
                resp = res.set_response.InvocationInfo
                tid = resp.TransactionId
                rstate = resp.InvocationState.value
            else:
                tid = rstate = None
            if tid is not None:
                if tid in seen_tids:
                    ctx.violation('C09.txid', 'duplicate', f'transaction id {tid} used for {seen_tids[tid]} and {call}')
                seen_tids[tid] = call
                if tid <= last_tid_per_consumer.get(ci, 0):
                    ctx.violation('C09.txid', 'not-increasing', f'consumer {ci}: transaction id {tid} after '
                                                                f'{last_tid_per_consumer[ci]}')
                last_tid_per_consumer[ci] = tid
            if call['kind'] == 'unknown':
                if rstate != 'Fail':
                    ctx.violation('C09.unknown', 'not-failed', f'request for an unknown operation answered with {rstate}')
                after = canon.snap(w.mdib) if False else None
                if tid in emitted:
                    ctx.violation('C09.unknown', 'report-for-unknown-operation', f'reports {emitted[tid]} for unknown operation')
                continue
            if tid is None:
                # future never completed: legitimate only if the final report was not delivered
                # (we do not know the transaction id then; use the emission record by elimination below)
                continue
            ems = emitted.get(tid, [])
            states = [st for st, _, _ in ems]
            finals = [st for st in states if st in FINAL]
            legal = True
            if rstate == 'Wait':
                nonfinal = [st for st in states if st not in FINAL]
                if nonfinal not in (['Wait', 'Start'], ['Start'], ['Wait', 'Wait', 'Start']):
                    legal = False
                if len(finals) != 1 or (states and states[-1] not in FINAL):
                    legal = False
            elif rstate in FINAL:
                if any(st not in FINAL for st in states) or len(finals) > 1 or (finals and finals[0] != rstate):
                    legal = False
            else:
                legal = False
            if not legal:
                ctx.violation('C09.sequence', f'response={rstate}:reports={"-".join(states)}',
                              f'{call}: transaction {tid}: response state {rstate}, reports in emission order {states}')
            final_state = finals[0] if finals else (rstate if rstate in FINAL else None)
            if call['mode'] in ('raise', 'raise_ctrl') and call['kind'] != 'context':
                info = [e for e in ems if e[0] in FINAL]
                if final_state != 'Fail' or (info and (info[0][1] is None or not info[0][2])):
                    ctx.violation('C09.fail', f'raise:{final_state}', f'{call}: handler raised but final state is '
                                                                      f'{final_state}, error info {info}')
            # consumer side
            dl = [(st, n) for t, st, n in delivered[ci] if t == tid]
            final_delivered = [x for x in dl if x[0] in FINAL]
            if dl and any(n2 > 0 for _, n2 in dl):
                pass
            if done:
                ctx.probe('futures_completed')
                got_state = res.InvocationInfo.InvocationState.value
                if final_state is not None and got_state != final_state:
                    ctx.violation('C09.future', f'wrong-final-state:{got_state}:{final_state}',
                                  f'{call}: future completed with {got_state} but the transaction ended with {final_state}')
                if got_state not in FINAL:
                    ctx.violation('C09.future', f'completed-non-final:{got_state}', f'{call}: future completed with {got_state}')
                # all report parts delivered no later than the final one must be in the result
                if final_delivered:
                    first_final_pos = min(i for i, x in enumerate(dl) if x[0] in FINAL)
                    want = [st for st, _ in dl[:first_final_pos + 1]]
                    got_parts = [p.InvocationInfo.InvocationState.value for p in res.report_parts]
                    missing = list(want)
                    for g in got_parts:
                        if g in missing:
                            missing.remove(g)
                    if missing and rstate == 'Wait':
                        ctx.violation('C09.future', f'report-parts-missing:{"-".join(missing)}',
                                      f'{call}: transaction {tid}: delivered {want} up to the final report, result carries '
                                      f'{got_parts}')
            elif final_delivered:
                ctx.violation('C09.future', f'not-completed:{rstate}', f'{call}: transaction {tid}: final report '
                                                                       f'{final_delivered} was delivered but the future '
                                                                       f'never completed')
        # reports delivered before their response?
        ctx.probe('report_before_response', sum(1 for c in plan['calls'] if c.get('resp_delay')))


CHECK = C09()
