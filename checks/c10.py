"""C10 - context association invariants hold after any sequence of context changes (world B: SetContextState through
the real consumer/provider stack + set_location on the provider, commit-time oracle)."""
from __future__ import annotations

import threading

from dsim import canon, worldb
from dsim.base import CheckBase, draw_sched_config

GIVEN = ['Ann', 'Bob', 'Zoë', "O'Neil", 'x y']
ASSOC = ['Assoc', 'Assoc', 'No', 'Pre', 'Dis']


class C10(CheckBase):
    id = 'C10'
    level = 'exploration'
    line_allow = ('tutorial/productandroles/contextprovider.py', 'sdc11073/mdib/transactions.py',
                  'sdc11073/mdib/providermdibxtra.py')
    rule = ('one evaluation = one simulated session: a consumer issues 3-25 seeded SetContextState calls (new, updated, '
            'associated / disassociated / re-associated, several states for one or several context descriptors per call, '
            'invalid proposals) while the provider application calls set_location (also concurrently); inside the commit '
            'critical section every change of association between two consecutive MdibVersions is checked (single '
            'association per descriptor, binding / unbinding version == the committing MdibVersion, times set, unique '
            'handles); non-trivial = >= 3 association changes observed; distinct = event-log digest')
    components = {'real': ['SdcProvider', 'ContextService', 'SCO worker', 'tutorial context role provider '
                           '(GenericContextProvider)', 'ProviderMdib context transactions', 'ProviderMdibMethods.set_location',
                           'SdcConsumer context service client', 'ConsumerMdib'],
                  'stub': ['sockets', 'aiohttp session', 'WS-Discovery stub']}
    assumptions = ['a state that the consumer explicitly proposes with a non-associated value keeps that value (Dis is only '
                   'demanded for states the provider disassociates itself)']
    expected_probes = ['set_context_calls', 'set_location', 'assoc_changes', 'rejected_proposals', 'reassociations',
                       'multi_state_calls', 'background_commits']
    max_steps = 6_000_000

    def budget(self, tier):
        return {'quick': {'runs': 220, 'wall': 85}, 'thorough': {'runs': 10000, 'wall': 1800}}[tier]

    def generate(self, rng, tier):
        cfg = worldb.draw_config(rng, periodic=None, mdib=rng.choice(['tns', 'tns', 'two']),
                                 max_subscription_duration=7200, frag_max=None)
        ops = []
        for i in range(rng.randint(3, 25 if tier == 'thorough' else 12)):
            k = rng.choice(['setctx', 'setctx', 'setctx', 'location', 'both'])
            op = {'id': i, 'k': k}
            if k in ('setctx', 'both'):
                props = []
                for _ in range(rng.choice([1, 1, 1, 2, 3])):
                    props.append({'descr': rng.choice(['PC.mds0', 'PC.mds0', 'PC.mds0', 'LC.mds0']),
                                  'which': rng.choice(['new', 'new', 'existing', 'existing', 'associated', 'unknown']),
                                  'pick': rng.randrange(100), 'assoc': rng.choice(ASSOC), 'given': rng.choice(GIVEN)})
                op['props'] = props
            if k in ('setctx', 'both'):
                op['bg'] = rng.random() < 0.5  # unrelated transactions are committed while the operation is handled
            if k in ('location', 'both'):
                op['loc'] = {'fac': rng.choice(['f1', 'f2']), 'poc': rng.choice(['p1', 'p2', None]),
                             'bed': rng.choice(['b1', 'b 2', 'ä']), 'rm': rng.choice([None, 'r1'])}
            ops.append(op)
        return {'sched': draw_sched_config(rng), 'world': cfg, 'ops': ops, 'stall_mdib_lock': rng.choice([0.0, 0.1, 0.3])}

    def body(self, ctx):
        plan = ctx.plan
        s = ctx.s
        w = worldb.WorldB(ctx, plan['world'])
        w.start_provider(role_components='example')
        prov = w.provider
        c, cm = w.start_consumer(0, init_mdib=True)
        pmt = w.mdib.data_model.pm_types
        hist = w.hist
        proposed_explicit = {}  # state handle -> association value explicitly proposed in the running call
        counters = {'changes': 0}
        problems = []
        mdib = w.mdib

        def on_commit(v, tr, empty):
            if empty:
                return
            cur = hist.hist[v]
            prev = hist.hist.get(v - 1)
            # unique handles
            n_obj = len(mdib.context_states.objects)
            if n_obj != len(cur['context']):
                problems.append(('C10.unique', 'duplicate-context-state-handle', f'v{v}: {n_obj} context states, '
                                                                                   f'{len(cur["context"])} distinct handles'))
            clash = set(cur['context']) & set(cur['descriptors'])
            if clash:
                problems.append(('C10.unique', 'state-handle-equals-descriptor-handle', f'v{v}: {sorted(clash)[:3]}'))
            per_descr = {}
            for h, st in cur['context'].items():
                if st.get('ContextAssociation') == 'Assoc':
                    per_descr.setdefault(st.get('DescriptorHandle'), []).append(h)
            for d, hs in per_descr.items():
                if len(hs) > 1:
                    problems.append(('C10.single', 'two-associated-states', f'v{v}: descriptor {d} has associated '
                                                                            f'states {hs}'))
            if prev is None:
                return
            for h, st in cur['context'].items():
                old = prev['context'].get(h)
                was = old.get('ContextAssociation') if old else None
                now = st.get('ContextAssociation')
                if old is not None and was != 'Assoc' and now != 'Assoc' and old.get('UnbindingMdibVersion') is not None:
                    # the state stopped being associated earlier: its unbinding stamp is the version / time of THAT change
                    if (st.get('UnbindingMdibVersion'), st.get('BindingEndTime')) != \
                            (old.get('UnbindingMdibVersion'), old.get('BindingEndTime')):
                        problems.append(('C10.unbind', 'unbinding-stamp-rewritten',
                                         f'v{v}: state {h} ({was}->{now}) was unbound at MdibVersion '
                                         f'{old.get("UnbindingMdibVersion")}, now carries UnbindingMdibVersion='
                                         f'{st.get("UnbindingMdibVersion")} / BindingEndTime={st.get("BindingEndTime")}'))
                if was == now:
                    continue
                counters['changes'] += 1
                if now == 'Assoc':
                    if st.get('BindingMdibVersion') != v or st.get('BindingStartTime') is None:
                        kind = 'new' if old is None else 're-associated'
                        problems.append(('C10.bind', f'{kind}:binding-version-or-time',
                                         f'v{v}: state {h} became associated ({kind}) but BindingMdibVersion='
                                         f'{st.get("BindingMdibVersion")}, BindingStartTime={st.get("BindingStartTime")}'))
                elif was == 'Assoc':
                    explicit = proposed_explicit.get(h)
                    if explicit is None and now != 'Dis':
                        problems.append(('C10.unbind', 'not-marked-disassociated', f'v{v}: state {h} stopped being associated '
                                                                                   f'and is now {now}'))
                    if st.get('UnbindingMdibVersion') != v or st.get('BindingEndTime') is None:
                        problems.append(('C10.unbind', f'{"explicit" if explicit else "implicit"}:unbinding-version-or-time',
                                         f'v{v}: state {h} stopped being associated ({was}->{now}) but UnbindingMdibVersion='
                                         f'{st.get("UnbindingMdibVersion")}, BindingEndTime={st.get("BindingEndTime")}'))

        hist.on_commit = on_commit

        if plan.get('stall_mdib_lock'):
            s.stall_before(w.mdib.mdib_lock, plan['stall_mdib_lock'], (0.002, 0.006))
        num_handle = sorted(d.Handle for d in w.mdib.descriptions.objects if d.NODETYPE.localname == 'NumericMetricDescriptor')[0]

        def bg_writer(stop):
            from decimal import Decimal
            n = 0
            with worldb.node(worldb.PROVIDER_IP):
                while not stop and n < 400:
                    n += 1
                    with w.mdib.metric_state_transaction() as mgr:
                        st = mgr.get_state(num_handle)
                        if st.MetricValue is None:
                            st.mk_metric_value()
                        st.MetricValue.Value = Decimal(n)
                    ctx.probe('background_commits')
                    s.sleep(0.003)

        def do_setctx(op):
            stop = []
            bg = None
            if op.get('bg'):
                bg = threading.Thread(target=bg_writer, args=(stop,), name='bgwriter')
                bg.start()
            try:
                return do_setctx_(op)
            finally:
                stop.append(1)
                if bg is not None:
                    bg.join()
                    w.settle(3.0)

        def do_setctx_(op):
            ctx.probe('set_context_calls')
            states = []
            proposed_explicit.clear()
            with s.no_preempt():
                snap = canon.snap(cm)
            for p in op['props']:
                existing = sorted(h for h, st in snap['context'].items() if st.get('DescriptorHandle') == p['descr'])
                assoc_now = [h for h in existing if snap['context'][h].get('ContextAssociation') == 'Assoc']
                which = p['which']
                if which == 'associated' and not assoc_now:
                    which = 'existing'
                if which == 'existing' and not existing:
                    which = 'new'
                if which == 'new':
                    st = cm.xtra.mk_proposed_state(p['descr'])
                    st.Handle = p['descr']
                elif which == 'unknown':
                    st = cm.xtra.mk_proposed_state(p['descr'])
                    st.Handle = 'no.such.state'
                else:
                    h = (assoc_now if which == 'associated' else existing)[p['pick'] % len(assoc_now if which == 'associated' else existing)]
                    st = cm.xtra.mk_proposed_state(p['descr'], handle=h)
                    if snap['context'][h].get('ContextAssociation') != 'Assoc' and p['assoc'] == 'Assoc':
                        ctx.probe('reassociations')
                    proposed_explicit[h] = p['assoc']
                st.ContextAssociation = pmt.ContextAssociation(p['assoc'])
                if p['descr'].startswith('PC'):
                    if st.CoreData is None:
                        st.CoreData = pmt.PatientDemographicsCoreData()
                    st.CoreData.Givenname = p['given']
                states.append(st)
            if len(states) > 1:
                ctx.probe('multi_state_calls')
            with s.no_preempt():
                before = canon.snap(w.mdib)
            v_before = w.mdib.mdib_version
            with worldb.node(worldb.CONSUMER_IPS[0]):
                try:
                    fut = c.client('Context').set_context_state('opSetPatCtx', states)
                    res = fut.result(timeout=6.0)
                    state = res.InvocationInfo.InvocationState.value
                except Exception as ex:  # noqa: BLE001
                    state = f'exception {ex!r}'
            w.settle(3.0)
            if state != 'Fin':
                ctx.probe('rejected_proposals')
                return before, v_before, state
            return None, v_before, state

        def do_location(op):
            from sdc11073.location import SdcLocation
            ctx.probe('set_location')
            with worldb.node(worldb.PROVIDER_IP):
                prov.set_location(SdcLocation(**{k: v for k, v in op['loc'].items()}), publish_now=False)

        for op in plan['ops']:
            s.reseed('op', op['id'])
            if op['k'] == 'setctx':
                before, v_before, state = do_setctx(op)
                if before is not None:
                    with s.no_preempt():
                        after = canon.snap(w.mdib)
                    # (background role providers, e.g. the alert self check, commit unrelated transactions meanwhile)
                    if after['context'] != before['context']:
                        d = canon.diff(before['context'], after['context'])
                        problems.append(('C10.reject', 'mdib-changed-by-rejected-proposal',
                                         f'SetContextState ended with {state} but the MDIB changed: {d[:4]}'))
            elif op['k'] == 'location':
                do_location(op)
                w.settle(3.0)
            else:
                t = threading.Thread(target=do_location, args=(op,), name='set_location')
                t.start()
                do_setctx(op)
                t.join()
                w.settle(3.0)
            for clause, sig, detail in problems:
                ctx.violation(clause, sig, detail)
        ctx.probe('assoc_changes', counters['changes'])
        ctx.nontrivial = counters['changes'] >= 3
        # the consumer sees the same
        with s.no_preempt():
            a = hist.hist.get(w.mdib.mdib_version)
            b = canon.snap(cm)
        if a is not None and a['context'] != b['context']:
            ctx.violation('C10.reported', 'consumer-context-differs', str(canon.diff(a['context'], b['context'])[:4]))


CHECK = C10()
