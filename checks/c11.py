"""C11 - every MDIB lookup always agrees with a scan of the stored objects.

(a) table machine: a MultiKeyLookup with unique / plain / none-skipping / 1:n indices driven by seeded operation
    sequences from 1-3 tasks (lock and line granularity in multikey.py), audited after every operation;
(b) provider MDIB tables under transaction histories that change indexed attributes (Source, ConditionSignaled,
    parent via delete+re-create, context handles) incl. rejected operations.
(c) consumer MDIB tables: a share of the runs is a complete C06 session (provider + consumer + fault-injecting
    middlebox: duplicated create parts are the rejected insertions of the consumer side, description updates change
    indexed attributes) of which only the lookup audit after every operation is judged here.
The consumer tables and the subscription table are audited in C01/C06/C08 runs as well.
"""
from __future__ import annotations

import threading

from dsim import canon, workload as W
from dsim.base import CheckBase, draw_sched_config


class Obj:
    __slots__ = ('uid', 'grp', 'opt', 'tags', 'name')

    def __init__(self, name, uid, grp, opt, tags):
        self.name, self.uid, self.grp, self.opt, self.tags = name, uid, grp, opt, tags

    def __repr__(self):
        return f'Obj({self.name} uid={self.uid} grp={self.grp} opt={self.opt} tags={self.tags})'


def table_state(t):
    return (sorted(o.name for o in t._objects),
            {n: {repr(k): sorted(o.name for o in v) for k, v in dict.items(idx)} for n, idx in t._idx_defs.items()},
            sorted(len(v) for v in t._object_ids.values() if v))


class _LookupsOnly:
    """Ctx view handed to the C06 session body: only its lookup clause is judged (as C11.consumer)"""

    def __init__(self, ctx):
        object.__setattr__(self, '_ctx', ctx)

    def __getattr__(self, name):
        return getattr(self._ctx, name)

    def __setattr__(self, name, value):
        setattr(self._ctx, name, value)

    def violation(self, clause, sig, detail, stop=True, cont=False):
        if clause == 'C06.lookups' and not sig.startswith('exception-in-thread'):
            return self._ctx.violation('C11.consumer', sig, detail, stop, cont)
        self._ctx.probe('other_property_clause_not_judged_here')
        from dsim.base import StopRun
        if stop:
            raise StopRun
        return False


class C11(CheckBase):
    id = 'C11'
    level = 'exploration'
    max_steps = 8_000_000
    line_allow = ('sdc11073/multikey.py', 'sdc11073/mdib/mdibbase.py', 'sdc11073/mdib/consumermdib')
    rule = ('one evaluation = one simulated run: (a) 20-120 seeded operations (add / mutate+update_object / remove / '
            'clear / failed add / remove of unknown object, locked and _no_lock entry '
            'points) on a MultiKeyLookup from 1-3 tasks, every index recomputed from the stored objects after each '
            'operation; (b) 8-30 provider transactions that change indexed attributes, audited after every commit and '
            'every rejected operation; non-trivial = a rejected insertion happened or >= 2 tasks; distinct = event-log '
            'digest + operation-sequence digest')
    components = {'real': ['MultiKeyLookup, IndexDefinition, UIndexDefinition, IndexDefinition1n',
                           'DescriptorsLookup/StatesLookup/MultiStatesLookup', 'ProviderMdib transactions',
                           'ConsumerMdib report processing (in the consumer sessions: SdcProvider + SdcConsumer stack)'],
                  'stub': ['sockets, aiohttp session (consumer sessions only)']}
    assumptions = ['concurrent table access goes through the locked entry points (the _no_lock ones are used by one task '
                   'at a time, as the MDIB does under mdib_lock)']
    expected_probes = ['failed_add', 'failed_update', 'concurrent_lookups', 'update_object', 'indexed_attr_changed', 'commits', 'consumer_sessions']

    def budget(self, tier):
        return {'quick': {'runs': 1500, 'wall': 60}, 'thorough': {'runs': 60000, 'wall': 1200}}[tier]

    def generate(self, rng, tier):
        mode = rng.choice(['table'] * 10 + ['mdib'] * 6 + ['consumer'] * 2)
        if mode == 'consumer':
            from checks.c06 import CHECK as C06
            plan = C06.generate(rng, tier)
            plan['mode'] = mode
            return plan
        plan = {'sched': draw_sched_config(rng), 'mode': mode}
        if mode == 'table':
            tasks = rng.choice([1, 1, 2, 3])
            n = rng.randint(20, 120 if tier == 'thorough' else 60)
            ops = []
            names = [f'o{i}' for i in range(8)]
            for i in range(n):
                k = rng.choice(['add', 'add', 'add', 'mutate', 'mutate', 'remove', 'remove', 'failed_add', 'clear',
                                'add_index', 'remove_unknown', 'add_many', 'lookup', 'lookup'])
                op = {'id': i, 'k': k, 't': rng.randrange(tasks), 'o': rng.choice(names),
                      'uid': rng.randint(0, 9), 'grp': rng.choice(['a', 'b', None]),
                      'opt': rng.choice([None, None, 'x', 'y']),
                      'tags': rng.choice([None, [], ['p'], ['p', 'q'], ['q', 'r', 's'], ['p', 'p'], ['q', 'r', 'q']]),
                      'nolock': rng.random() < 0.3 and tasks == 1, 'attr': rng.choice(['uid', 'grp', 'opt', 'tags'])}
                if k == 'clear' and rng.random() < 0.7:
                    op['k'] = 'add'
                ops.append(op)
            plan.update({'tasks': tasks, 'ops': ops, 'index_order': rng.sample(['uid', 'grp', 'opt', 'tags'], 4)})
        else:
            which = rng.choice(['tns', 'two'])
            g = W.Gen(rng, which, validate=False)
            ops = []
            for _ in range(rng.randint(8, 30 if tier == 'thorough' else 16)):
                op = g.gen_op(kinds=['descr'] * 4 + ['context'] * 2 + ['state'])
                if op is None:
                    continue
                if rng.random() < 0.15:
                    op['abort_at'] = rng.randrange(W.body_steps(op))
                ops.append(op)
            plan.update({'mdib': which, 'ops': ops})
        return plan

    # ------------------------------------------------------------------
    def body(self, ctx):
        if ctx.plan['mode'] == 'consumer':
            from checks.c06 import CHECK as C06
            ctx.probe('consumer_sessions')
            C06.body(_LookupsOnly(ctx))
        elif ctx.plan['mode'] == 'table':
            self._table(ctx)
        else:
            self._mdib(ctx)
        import hashlib
        import json
        ctx.stats['distinct_key'] = ctx.s.digest() + hashlib.blake2b(
            json.dumps(ctx.plan['ops'], sort_keys=True).encode(), digest_size=6).hexdigest()

    def _table(self, ctx):
        from sdc11073 import multikey
        plan = ctx.plan
        s = ctx.s
        t = multikey.MultiKeyLookup()
        defs = {'uid': lambda: multikey.UIndexDefinition(lambda o: o.uid),
                'grp': lambda: multikey.IndexDefinition(lambda o: o.grp),
                'opt': lambda: multikey.IndexDefinition(lambda o: o.opt, index_none_values=False),
                'tags': lambda: multikey.IndexDefinition1n(lambda o: o.tags, index_none_values=False)}
        order = plan['index_order']
        for name in order:
            t.add_index(name, defs[name]())  # as the MDIB tables do: all indices exist before objects are stored
        late_index = None
        live = {}  # name -> Obj currently stored (model)
        guard = threading.Lock()  # the model and multi-step operations are serialised per operation

        def audit(where):
            p = canon.audit_table(t, 'table')
            if p:
                ctx.violation('C11.lookups', p[0].split('[')[0], f'{where}: {p[:3]}')
            names = sorted(o.name for o in t._objects)
            if names != sorted(live):
                ctx.violation('C11.lookups', 'stored-objects', f'{where}: stored {names} but model has {sorted(live)}')

        def run_lookup(op):
            # a reader that uses the locked lookup entry points while other tasks modify the table: whatever the
            # interleaving, a lookup returns objects (or None / []), it never raises for want of synchronisation
            s.reseed('op', op['id'])
            ctx.probe('concurrent_lookups')
            try:
                if 'uid' in t._idx_defs:
                    got = t.uid.get_one(op['uid'], allow_none=True)
                    if got is not None and got.uid != op['uid'] and got in t._objects and plan['tasks'] == 1:
                        ctx.violation('C11.lookups', 'get_one-wrong-object', f'uid.get_one({op["uid"]}) -> {got}')
                if 'grp' in t._idx_defs:
                    for o in t.grp.get(op['grp'], []):
                        _ = o.name
                if 'tags' in t._idx_defs and op['tags']:
                    t.tags.get(op['tags'][0], [])
            except (IndexError, RuntimeError, AttributeError, TypeError) as ex:
                import traceback
                ctx.violation('C11.lookups', f'lookup-raised:{type(ex).__name__}',
                              f'{op}: a lookup through the locked entry point raised while another task updated the table:\n'
                              f'{traceback.format_exc()[-1200:]}')

        def run_op(op):
            k = op['k']
            nolock = op['nolock']
            if k == 'lookup':
                return run_lookup(op)
            with guard:
                s.reseed('op', op['id'])
                name = op['o']
                if k in ('add', 'failed_add', 'add_many'):
                    uid = op['uid']
                    if k == 'failed_add' and live:
                        uid = sorted(live.values(), key=lambda o: o.name)[0].uid  # force a unique-key clash
                    if name in live:
                        name = name + f'_{op["id"]}'
                    obj = Obj(name, uid, op['grp'], op['opt'], op['tags'])
                    clash = 'uid' in t._idx_defs and any(o.uid == uid for o in live.values())
                    before = table_state(t)
                    try:
                        if k == 'add_many':
                            (t.add_objects_no_lock if nolock else t.add_objects)([obj])
                        else:
                            (t.add_object_no_lock if nolock else t.add_object)(obj)
                        if clash:
                            ctx.violation('C11.rejected', 'unique-clash-accepted', f'{op}: duplicate unique key accepted')
                        live[name] = obj
                    except KeyError:
                        ctx.probe('failed_add')
                        ctx.nontrivial = True
                        after = table_state(t)
                        if after != before:
                            ctx.violation('C11.rejected', 'table-changed-by-rejected-insertion',
                                          f'rejected insertion of {obj} changed the table: '
                                          f'{canon.diff(before, after)[:4]}')
                elif k == 'mutate' and live:
                    obj = live[sorted(live)[op['id'] % len(live)]]
                    attr = op['attr']
                    newv = op[attr]
                    clash = attr == 'uid' and any(o.uid == newv and o is not obj for o in live.values())
                    if clash and op['id'] % 3:
                        newv = obj.uid  # (most of the time no clash through update)
                        clash = False
                    setattr(obj, attr, newv)
                    try:
                        (t.update_object_no_lock if nolock and hasattr(t, 'update_object_no_lock') else t.update_object)(obj)
                        if clash:
                            ctx.violation('C11.rejected', 'unique-clash-accepted-by-update',
                                          f'{op}: update_object accepted a duplicate unique key')
                        ctx.probe('update_object')
                    except KeyError:
                        # a re-index rejected by the unique index: two stored objects with that key cannot be
                        # represented, so the object may be gone from the table - but whatever is stored must be
                        # found by every lookup (audit below)
                        ctx.probe('failed_update')
                        ctx.nontrivial = True
                        if obj not in t._objects:
                            del live[obj.name]
                elif k == 'remove' and live:
                    key = sorted(live)[op['id'] % len(live)]
                    obj = live.pop(key)
                    (t.remove_object_no_lock if nolock else t.remove_object)(obj)
                elif k == 'lookup':
                    pass  # (handled outside the guard, see below)
                elif k == 'remove_unknown':
                    stranger = Obj('stranger', 99, 'a', None, None)
                    (t.remove_object_no_lock if nolock else t.remove_object)(stranger)
                    t.remove_objects([stranger])
                elif k == 'clear':
                    t.clear()
                    live.clear()
                elif k == 'add_index' and late_index is not None and late_index not in t._idx_defs:
                    if late_index == 'uid' and len({o.uid for o in live.values()}) != len(live):
                        return
                    t.add_index(late_index, defs[late_index]())
                    ctx.probe('add_index')
                audit(f'after op {op["id"]} {k}')

        tasks = plan['tasks']

        def worker(ti):
            for op in plan['ops']:
                if op['t'] == ti:
                    run_op(op)

        if tasks == 1:
            worker(0)
        else:
            ctx.nontrivial = True
            ths = [threading.Thread(target=worker, args=(i,), name=f't{i}') for i in range(tasks)]
            for th in ths:
                th.start()
            for th in ths:
                th.join()
        # lookups offered by the API agree with a scan
        for name, idx in t._idx_defs.items():
            for key in list(dict.keys(idx)):
                got = sorted(o.name for o in (idx.get(key) or []))
                fn = idx._get_key_func
                exp = sorted(o.name for o in live.values()
                             if (key in (fn(o) or []) if name == 'tags' else fn(o) == key))
                if got != exp:
                    ctx.violation('C11.lookups', f'get:{name}', f'{name}.get({key!r}) -> {got}, scan -> {exp}')

    def _mdib(self, ctx):
        plan = ctx.plan
        s = ctx.s
        mdib = W.load_mdib(plan['mdib'])

        def audit(where):
            p = canon.audit_mdib(mdib, 'provider')
            if p:
                ctx.violation('C11.mdib', p[0].split('[')[0], f'{where}: {p[:3]}')

        for op in plan['ops']:
            s.reseed('op', op['id'])
            idx_before = self._indexed_attrs(mdib)
            try:
                W.apply_op(mdib, op, W.Env(crash_at=op.get('abort_at')))
                ctx.probe('commits')
            except W.OpRejected:
                ctx.probe('rejected')
                ctx.nontrivial = True
            except W.InjectedCrash:
                ctx.probe('aborted')
            if self._indexed_attrs(mdib) != idx_before:
                ctx.probe('indexed_attr_changed')
            audit(f'after op {op["id"]} {op["k"]}')
            # API-level lookups
            for d in list(mdib.descriptions.objects):
                if mdib.descriptions.handle.get_one(d.Handle, allow_none=True) is not d:
                    ctx.violation('C11.mdib', 'handle-lookup', f'descriptions.handle[{d.Handle}] is not the stored object')
                kids = mdib.descriptions.parent_handle.get(d.Handle, [])
                scan = [x for x in mdib.descriptions.objects if x.parent_handle == d.Handle]
                if sorted(x.Handle for x in kids) != sorted(x.Handle for x in scan):
                    ctx.violation('C11.mdib', 'parent-lookup', f'children of {d.Handle}: index {len(kids)} scan {len(scan)}')
            for d in list(mdib.descriptions.objects):
                src = getattr(d, 'Source', None)
                if src:
                    for h in src:
                        if d not in (mdib.descriptions.source.get(h) or []):
                            ctx.violation('C11.mdib', 'source-lookup', f'source[{h}] misses {d.Handle}')
                cs = getattr(d, 'ConditionSignaled', None)
                if cs and d not in (mdib.descriptions.condition_signaled.get(cs) or []):
                    ctx.violation('C11.mdib', 'condition-signaled-lookup', f'condition_signaled[{cs}] misses {d.Handle}')

    @staticmethod
    def _indexed_attrs(mdib):
        return sorted((d.Handle, d.parent_handle, tuple(getattr(d, 'Source', None) or ()),
                       getattr(d, 'ConditionSignaled', None)) for d in mdib.descriptions.objects)


CHECK = C11()
