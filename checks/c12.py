"""C12 - instances never share mutable state or alter the defaults of later instances.

No schedule, clock or fault in this property: what makes it more than a pure function is hidden process-global state
(class-level default objects) evolving over a *history* of operations. Decided with the history half of the technique
only - seeded operation sequences against a reference model (one independent snapshot per live instance)."""
from __future__ import annotations

import copy
import inspect
import random

from lxml import etree

from dsim import canon, values as V
from dsim.base import CheckBase, draw_sched_config

_classes = None


def class_universe():
    """all concrete container / data type classes that can be constructed and serialised"""
    global _classes
    if _classes is not None:
        return _classes
    from sdc11073.mdib import descriptorcontainers as dc, statecontainers as sc
    from sdc11073.xml_types import pm_types
    out = []
    for mod, kind in ((sc, 'state'), (dc, 'descr'), (pm_types, 'type')):
        for name, cls in sorted(inspect.getmembers(mod, inspect.isclass)):
            if cls.__module__ != mod.__name__ or not hasattr(cls, 'sorted_container_properties'):
                continue
            if kind != 'type' and (getattr(cls, 'NODETYPE', None) is None or name.startswith('Abstract')):
                continue
            if kind == 'type' and name in ('PropertyBasedPMType', 'ElementWithTextOnly'):
                continue
            try:
                inst = _construct(cls, kind)
                if not inst.sorted_container_properties():
                    continue
                canon.canon(inst)
            except Exception:  # noqa: BLE001
                continue
            out.append((name, kind))
    _classes = out
    return out


def classes_with_mutable_defaults():
    """classes that have a member whose declared default value is a mutable object (found by walking _props)"""
    out = []
    for name, kind in class_universe():
        cls = _cls(name, kind)
        inst = _construct(cls, kind)
        for pname, prop in inst.sorted_container_properties():
            dv = getattr(prop, '_default_py_value', None)
            if dv is not None and hasattr(dv, 'sorted_container_properties'):
                out.append((name, kind, pname))
    return out


def _construct(cls, kind):
    if kind == 'state':
        inst = cls(descriptor_container=None)
        inst.DescriptorHandle = 'dh'  # mandatory members, otherwise the instance cannot be serialised
        if getattr(inst, 'is_context_state', False):
            inst.Handle = 'sh'
        return inst
    if kind == 'descr':
        return cls('h', 'p')
    return V.new_instance(cls)


def _cls(name, kind):
    from sdc11073.mdib import descriptorcontainers as dc, statecontainers as sc
    from sdc11073.xml_types import pm_types
    return getattr({'state': sc, 'descr': dc, 'type': pm_types}[kind], name)


class C12(CheckBase):
    id = 'C12'
    level = 'exploration'
    rule = ('one evaluation = one seeded operation sequence (20-120 operations) over the container and data-type classes: '
            'construct / parse from XML in which a random subset of optional members is absent / mk_copy / deepcopy / '
            'update_from_other_container / nested-path write / serialise; after EVERY operation every live instance is '
            'compared with its private model snapshot and a fresh instance of every touched class with the value recorded at '
            'process start; non-trivial = >= 5 nested writes and >= 3 parse operations; distinct = operation-sequence digest')
    components = {'real': ['statecontainers', 'descriptorcontainers', 'pm_types', 'xml_structure properties', 'containerbase '
                           '(mk_copy, update_from_other_container)'], 'stub': []}
    assumptions = ['single task; no fault kinds (history half of the technique only)',
                   'copy.copy of a container is shallow by definition of the language and therefore not an operation of the model']
    expected_probes = ['inplace_append', 'inplace_append_nested', 'parse_tree_of_live_instance', 'construct', 'parse', 'mk_copy', 'update_from_other', 'deepcopy', 'write', 'serialise',
                       'absent_member_parsed']

    def budget(self, tier):
        return {'quick': {'runs': 800, 'wall': 70}, 'thorough': {'runs': 40000, 'wall': 1500}}[tier]

    def generate(self, rng, tier):
        uni = class_universe()
        ops = []
        n = rng.randint(20, 120 if tier == 'thorough' else 60)
        focus = rng.sample(uni, min(len(uni), rng.randint(2, 6)))
        special = classes_with_mutable_defaults()
        absent = None
        if special and rng.random() < 0.5:
            # swarm: concentrate on a class with a mutable default member and parse XML in which it is absent
            name, kind, pname = rng.choice(special)
            focus = [(name, kind)] + focus[:2]
            absent = pname
        for i in range(n):
            k = rng.choice(['construct', 'parse', 'parse', 'mk_copy', 'update_from_other', 'deepcopy', 'write', 'write', 'write',
                            'inplace', 'inplace', 'serialise'])
            ops.append({'id': i, 'k': k, 'cls': rng.choice(focus), 'pick': rng.randrange(1000), 'seed': rng.getrandbits(32)})
        return {'sched': draw_sched_config(rng, line_ok=False), 'ops': ops, 'absent': absent}

    def body(self, ctx):
        import sdc11073.definitions_sdc as defs
        nsh = defs.SdcV1Definitions.data_model.ns_helper
        live = []  # [instance, model snapshot, class name, kind, origin]
        baseline = {}
        writes = parses = 0

        def fresh(name, kind):
            return canon.canon(_construct(_cls(name, kind), kind))

        relation = {}  # id(copy) -> id(source)
        graveyard = []  # instances dropped from `live` stay referenced: an id() is never reused within a run
        group = {}  # id(instance) -> representative id: instances connected by update_from_other_container (any direction,
        # transitively) - these share nested values because of the known shallow-copy defect of that method

        def find(i):
            while group.get(i, i) != i:
                i = group[i]
            return i

        def union(a, b):
            group.setdefault(a, a)
            group.setdefault(b, b)
            group[find(a)] = find(b)

        def check(where, target=None, shape=''):
            for inst, model, name, kind, origin in live:
                now = canon.canon(inst)
                if now != model:
                    d = canon.diff(model, now)
                    sig = f'{where.split(":")[0]}:unrelated:{origin}'
                    if target is not None:
                        t_inst, t_origin = target
                        if id(t_inst) in group and id(inst) in group and find(id(t_inst)) == find(id(inst)):
                            sig = f'shares-within-update_from_other_container-group:{shape}'
                        elif relation.get(id(t_inst)) == id(inst):
                            sig = f'write-to-copy-changes-source:{t_origin}:{shape}'
                        elif relation.get(id(inst)) == id(t_inst):
                            sig = f'write-to-source-changes-copy:{origin}:{shape}'
                        else:
                            sig = f'write:unrelated-instances:{t_origin}:{origin}'
                    ctx.violation('C12.alias', sig, f'after {where}: an instance of {name} obtained '
                                                    f'by "{origin}" changed although it was not '
                                                    f'the target of the operation: {d[:4]}')
            for (name, kind), val in baseline.items():
                now = fresh(name, kind)
                if now != val:
                    d = canon.diff(val, now)
                    ctx.violation('C12.defaults', f'{where.split(":")[0]}:{name}', f'after {where}: a freshly constructed {name} '
                                                                                  f'differs from the one constructed at start: {d[:4]}')

        for op in ctx.plan['ops']:
            rng = random.Random(op['seed'])
            target = None
            shape = ''
            name, kind = op['cls']
            cls = _cls(name, kind)
            baseline.setdefault((name, kind), fresh(name, kind))
            k = op['k']
            same = [e for e in live if e[2] == name]
            where = f'{k}:{name}'
            try:
                if k == 'construct':
                    ctx.probe('construct')
                    inst = _construct(cls, kind)
                    live.append([inst, canon.canon(inst), name, kind, 'construct'])
                elif k == 'parse':
                    ctx.probe('parse')
                    parses += 1
                    from_live = bool(same) and rng.random() < 0.35
                    if from_live:
                        # parse the XML tree generated from a live instance (the tree is used in-process, not re-read
                        # from bytes): the parsed instance and its source are independent of each other
                        src = same[op['pick'] % len(same)][0]
                        ctx.probe('parse_tree_of_live_instance')
                    else:
                        src = V.gen_instance(cls, rng) if kind == 'type' else self._gen_container(cls, kind, rng)
                    ab = ctx.plan.get('absent')
                    if not from_live and ab and hasattr(src, ab) and rng.random() < 0.7:
                        try:
                            setattr(src, ab, None)  # optional member absent in the XML
                        except Exception:  # noqa: BLE001
                            pass
                    node = self._serialise(src, kind, nsh)
                    inst = _construct(cls, kind) if kind != 'type' else None
                    if kind == 'type':
                        inst = cls.from_node(node)
                    else:
                        inst.update_from_node(node)
                    before = canon.canon(src)
                    if len(canon.canon(inst)) < len(canon.canon(_construct(cls, kind))) + 1:
                        ctx.probe('absent_member_parsed')
                    live.append([inst, canon.canon(inst), name, kind, 'parse'])
                elif k == 'mk_copy' and same and kind != 'type':
                    ctx.probe('mk_copy')
                    src = same[op['pick'] % len(same)][0]
                    inst = src.mk_copy()
                    relation[id(inst)] = id(src)
                    live.append([inst, canon.canon(inst), name, kind, 'mk_copy'])
                elif k == 'deepcopy' and same:
                    ctx.probe('deepcopy')
                    src = same[op['pick'] % len(same)][0]
                    inst = copy.deepcopy(src)
                    relation[id(inst)] = id(src)
                    live.append([inst, canon.canon(inst), name, kind, 'deepcopy'])
                elif k == 'update_from_other' and same and kind != 'type':
                    ctx.probe('update_from_other')
                    src = same[op['pick'] % len(same)][0]
                    inst = _construct(cls, kind)
                    if kind == 'state':
                        inst.DescriptorHandle = src.DescriptorHandle
                        if hasattr(inst, 'Handle') and hasattr(src, 'Handle'):
                            inst.Handle = src.Handle
                    else:
                        inst.Handle = src.Handle
                    inst.update_from_other_container(src)
                    relation[id(inst)] = id(src)
                    union(id(inst), id(src))
                    live.append([inst, canon.canon(inst), name, kind, 'update_from_other_container'])
                elif k == 'write' and live:
                    entry = live[op['pick'] % len(live)]
                    mut = V.gen_mutation(entry[0], rng, prefer_nested=0.85)
                    if mut is None:
                        continue
                    V.set_path(entry[0], mut[0], V.dec(mut[1]))
                    ctx.probe('write')
                    writes += 1
                    entry[1] = canon.canon(entry[0])
                    target = (entry[0], entry[4])
                    # where the written member sits: inside an element of a list member, or n attribute levels deep
                    path = mut[0]
                    shape = 'via-list-element' if len(path) > 1 and isinstance(path[1], int) else \
                        f'depth{sum(1 for x in path if isinstance(x, str))}'
                    where = f'write:{entry[2]}:' + '.'.join(str(p) for p in mut[0] if not isinstance(p, int))
                elif k == 'inplace' and live:
                    # in-place change of a list valued member (append), e.g. state.Extension.append(...)
                    entry = live[op['pick'] % len(live)]
                    from sdc11073.xml_types import xml_structure as xs
                    list_props = (xs.ExtensionNodeProperty, xs.SubElementListProperty, xs.SubElementStringListProperty,
                                  xs._StringAttributeListBase, xs.DecimalListAttributeProperty)

                    def collect(obj, path, depth, out):
                        # list valued members of obj and (up to three levels down) of its nested values
                        for n, p in obj.sorted_container_properties():
                            if isinstance(p, list_props):
                                out.append((obj, n, p, path + [n]))
                            if depth < 3:
                                try:
                                    v = p.get_actual_value(obj)
                                except Exception:  # noqa: BLE001
                                    v = None
                                for sub in (v if isinstance(v, list) else [v])[:2]:
                                    if hasattr(sub, 'sorted_container_properties'):
                                        collect(sub, path + [n], depth + 1, out)
                    allc = []
                    elem_changed = False
                    collect(entry[0], [], 0, allc)
                    nested = [c_ for c_ in allc if len(c_[3]) > 1]
                    cands = nested if (nested and rng.random() < 0.6) else allc
                    if not cands:
                        continue
                    owner, pname_, prop, ppath = rng.choice(cands)
                    pname = '.'.join(ppath)
                    lst = getattr(owner, pname_)
                    if lst is None:
                        continue
                    if len(ppath) > 1:
                        ctx.probe('inplace_append_nested')
                    if isinstance(prop, xs.ExtensionNodeProperty):
                        if lst and rng.random() < 0.5:
                            # change an extension element the instance already holds (an lxml element is mutable)
                            lst[rng.randrange(len(lst))].set('changed-by', f'op{op["id"]}')
                            ctx.probe('extension_element_changed')
                            elem_changed = True
                        else:
                            lst.append(etree.Element(etree.QName('urn:dsim:ext', f'e{op["id"]}')))
                    elif isinstance(prop, xs.SubElementListProperty) and not isinstance(prop, xs.SubElementStringListProperty):
                        lst.append(V.gen_instance(prop.value_class, rng, 1))
                    elif isinstance(prop, xs.DecimalListAttributeProperty):
                        from decimal import Decimal
                        lst.append(Decimal(op['id']))
                    else:
                        lst.append(f'v{op["id"]}')
                    ctx.probe('inplace_append')
                    writes += 1
                    entry[1] = canon.canon(entry[0])
                    target = (entry[0], entry[4])
                    shape = f'inplace-append{"-nested" if len(ppath) > 1 else ""}:{type(prop).__name__}'
                    if elem_changed:
                        shape = 'via-list-element'  # a write through an element of a list valued member
                    where = f'inplace-append:{entry[2]}:{pname}'
                elif k == 'serialise' and live:
                    ctx.probe('serialise')
                    entry = live[op['pick'] % len(live)]
                    self._serialise(entry[0], entry[3], nsh)
                else:
                    continue
            except (ValueError, TypeError, AttributeError, KeyError, IndexError):
                continue  # a generated value the class does not accept: not the subject of this property
            check(where, target, shape)
            if len(live) > 14:
                graveyard.append(live[0][0])
                del live[0]
        ctx.nontrivial = writes >= 5 and parses >= 3
        import hashlib
        import json
        ctx.stats['distinct_key'] = hashlib.blake2b(json.dumps(ctx.plan['ops'], sort_keys=True).encode(), digest_size=10).hexdigest()

    @staticmethod
    def _gen_container(cls, kind, rng):
        inst = _construct(cls, kind)
        for _ in range(rng.randint(0, 5)):
            mut = V.gen_mutation(inst, rng, prefer_nested=0.3)
            if mut is not None:
                try:
                    V.set_path(inst, mut[0], V.dec(mut[1]))
                except Exception:  # noqa: BLE001
                    pass
        return inst

    @staticmethod
    def _serialise(inst, kind, nsh):
        if kind == 'type':
            return inst.as_etree_node(etree.QName('urn:x', 'X'), nsh.partial_map(nsh.PM, nsh.MSG, nsh.XSI, nsh.EXT))
        return inst.mk_node(etree.QName('urn:x', 'X'), nsh)


CHECK = C12()
