"""C13 - request handling is total: any input gets a response; no hang, crash or XXE (world B; raw clients send
truncated / malformed / mutated requests to the provider endpoint and to the consumer's notification endpoint)."""
from __future__ import annotations

import os
import random

from lxml import etree

from dsim import canon, httpmsg, net as N, peers, workload as W, worldb, xsd
from dsim.base import CheckBase, draw_sched_config
from dsim.xsd import NS

CANARY = 'CANARY-7f3a9c-SECRET-CONTENT'
CANARY_PATH = '/tmp/dsim_canary_c13.txt'
ATT_IP = '10.0.7.7'


def corpus_from_net(net, server_addrs):
    """all complete requests recorded on connections to the given listeners -> [(addr, raw bytes, HttpMsg)]"""
    out = []
    for conn in net.conns:
        if conn.server_addr not in server_addrs or conn.client_addr[0] == ATT_IP:
            continue
        data = b''.join(c for _, _, c in conn.c2s.rec)
        pos = 0
        while pos < len(data):
            try:
                m = httpmsg.parse_message(data[pos:], True)
            except (httpmsg.Incomplete, httpmsg.FramingError):
                break
            out.append((conn.server_addr, data[pos:pos + m.consumed], m))
            pos += m.consumed
    return out


def rebuild(m, body=None, headers=None, drop=(), chunked=None, start=None):
    """re-serialise a parsed request with modifications"""
    hs = []
    for k, v in m.headers:
        lk = k.lower()
        if lk in ('content-length', 'transfer-encoding') or lk in drop:
            continue
        hs.append((k, v))
    for k, v in (headers or {}).items():
        hs = [(a, b) for a, b in hs if a.lower() != k.lower()]
        if v is not None:
            hs.append((k, v))
    raw = m.raw_body if body is None else body
    if chunked:
        hs.append(('Transfer-Encoding', 'chunked'))
        wire = chunked(raw)
    else:
        hs.append(('Content-Length', str(len(raw))))
        wire = raw
    head = (start or m.start) + '\r\n' + ''.join(f'{k}: {v}\r\n' for k, v in hs) + '\r\n'
    return head.encode('latin-1') + wire


def chunks_of(n):
    def f(raw):
        out = bytearray()
        for i in range(0, len(raw), n):
            c = raw[i:i + n]
            out += f'{len(c):x}\r\n'.encode() + c + b'\r\n'
        out += b'0\r\n\r\n'
        return bytes(out)
    return f


class C13(CheckBase):
    id = 'C13'
    level = 'fault_enumeration'
    line_allow = ('sdc11073/httpserver/', 'sdc11073/dispatch/')
    rule = ('one evaluation = one simulated session: a healthy provider+consumer exchange produces a corpus of real requests '
            '(TransferGet, GetMetadata, WSDL GET, Subscribe/Renew/GetStatus, GetMdib, Set*, notifications ...); then 3-14 '
            'sampled corpus requests are (a) truncated at EVERY byte offset of a window (headers, chunk header, chunk data, '
            'trailer; stride 1 inside the framing regions) followed by EOF, (b) sent with wrong content-length, negative / huge '
            '/ non-hex chunk sizes, missing final chunk, 1-byte fragmentation, unsupported or corrupt content coding, wrong '
            'path / action / content type, (c) structure-aware XML mutations and DOCTYPE / entity payloads; every connection '
            'must end with one parseable HTTP response (or a closed connection after EOF inside the header), no spin, no '
            'exception in the server loop, no entity expansion, unchanged state after a rejection; non-trivial = >= 20 '
            'malformed requests answered; distinct = event-log digest')
    components = {'real': ['HttpServerThreadBase / _ThreadingHTTPServer', 'DispatchingRequestHandler', 'HTTPReader',
                           'MessageConverterMiddleware', 'dispatchers', 'msgreader (parser settings, schema validation)',
                           'provider port types', 'consumer notification handling', 'http.server / socketserver'],
                  'stub': ['attacker (scripted raw client)', 'sockets']}
    assumptions = ['a connection that stays open without sending further bytes may keep its handler waiting (that is a '
                   'resource question, not decided here); termination is demanded after EOF',
                   'truncation offsets are enumerated completely inside the sampled window only']
    expected_probes = ['truncations', 'framing_faults', 'xml_mutations', 'doctype', 'bad_coding', 'answered', 'rejected',
                       'consumer_endpoint', 'provider_endpoint', 'unusual_header_values', 'liveness_checked', 'notifications_replayed', 'inconsistent_notifications']
    max_steps = 12_000_000

    def budget(self, tier):
        return {'quick': {'runs': 64, 'wall': 90}, 'thorough': {'runs': 3000, 'wall': 2400}}[tier]

    def generate(self, rng, tier):
        cfg = worldb.draw_config(rng, periodic=None, mdib='tns', frag_max=None, latency=0.0, max_subscription_duration=7200,
                                 chunk_size=rng.choice([0, 0, 512]), consumer_chunk=rng.choice([0, 64, 512]),
                                 async_mgr=False)
        return {'sched': draw_sched_config(rng, line_ok=False), 'world': cfg, 'mut_seed': rng.getrandbits(32),
                'n_requests': rng.randint(3, 5) if tier == 'quick' else rng.randint(6, 14),
                'window': 60 if tier == 'quick' else 400, 'trunc_cap': 90 if tier == 'quick' else 1500}

    # ------------------------------------------------------------------
    def body(self, ctx):
        plan = ctx.plan
        s = ctx.s
        rng = random.Random(plan['mut_seed'])
        with open(CANARY_PATH, 'w') as f:
            f.write(CANARY)
        w = worldb.WorldB(ctx, plan['world'])
        w.start_provider(role_components='example')
        c, cm = w.start_consumer(0, init_mdib=True)
        # healthy traffic for the corpus
        with worldb.node(worldb.PROVIDER_IP):
            g = W.Gen(random.Random(1), 'tns', validate=True)
            for kinds_ in (['metric'], ['alert'], ['context'], ['descr'], ['descr']):
                op = g.gen_op(kinds=kinds_)
                if op:
                    try:
                        W.apply_op(w.mdib, op)
                    except W.OpRejected:
                        pass
            # (the corpus always contains a description modification report with a 'create' part: delivered a second time
            # with a fresh MdibVersion it asks the consumer to create what exists already)
            step = g._mk_create_step('NumericMetricDescriptor', 'c13.created', 'ch0.vmd0')
            if step is not None:
                try:
                    W.apply_op(w.mdib, {'k': 'descr', 'iface': 'classic', 'steps': [step], 'id': 9001})
                except W.OpRejected:
                    pass
        with worldb.node(worldb.CONSUMER_IPS[0]):
            try:
                c.client('Set').set_string('SET_NTP_SRV_mds0', 'a.b.c').result(timeout=5)
            except Exception:  # noqa: BLE001
                pass
            c.client('Get').get_md_state(['numeric.ch0.vmd0'])
            c.client('Context').get_context_states()
            for sub in list(c.subscription_mgr.subscriptions.values()):
                try:
                    sub.renew(60)
                    sub.get_status()
                except Exception:  # noqa: BLE001
                    pass
            try:
                c.get_soap_client(w.provider.get_xaddrs()[0]).get_from_url(f'/{w.provider.path_prefix}/Get/?wsdl', 'wsdl')
            except Exception:  # noqa: BLE001
                pass
        w.settle(3.0)
        paddr = (worldb.PROVIDER_IP, w.provider._http_server.server_port)
        caddr = (worldb.CONSUMER_IPS[0], c._http_server.server_port)
        corpus = corpus_from_net(w.net, {paddr, caddr})
        if len(corpus) < 8:
            raise RuntimeError(f'corpus too small: {len(corpus)}')
        # observation of exceptions that reach the socketserver level
        escaped = []
        for srv in (w.provider._http_server, c._http_server):
            httpd = srv.httpd
            httpd.handle_error = (lambda request, client_address, httpd=httpd: escaped.append((httpd.server_address, _exc_text())))
        mgrs = w.provider._subscriptions_managers

        def state_snapshot():
            with s.no_preempt():
                subs = sorted((name, o.identifier_uuid.hex, o.notify_to_address, tuple(o.actions_filter))
                              for name, m in mgrs.items() for o in m._subscriptions.objects)
                return canon.snap(w.mdib), subs

        stats = {'answered': 0}
        picks = [rng.choice(corpus) for _ in range(plan['n_requests'])]
        for addr, raw, m in picks:
            ctx.probe('provider_endpoint' if addr == paddr else 'consumer_endpoint')
            cases = self._cases(rng, raw, m, plan['window'], ctx, plan.get('trunc_cap', 260))
            for label, data, eof, frag in cases:
                before = state_snapshot()
                n_esc = len(escaped)
                n_spin = len(w.net.spins)
                resp, closed, err = self._send(w, addr, data, eof, frag)
                w.settle(2.0)
                what = f'{label} of {m.start!r} to {"provider" if addr == paddr else "consumer"} endpoint'
                if len(w.net.spins) > n_spin:
                    ctx.violation('C13.terminates', f'spin-after-eof:{label.split("@")[0]}',
                                  f'{what}: the handler kept reading after EOF (>20000 reads of b\'\')')
                if len(escaped) > n_esc and not any(x in escaped[-1][1] for x in ('BrokenPipeError', 'ConnectionResetError')):
                    ctx.violation('C13.escape', f'{label.split("@")[0]}:{escaped[-1][1].splitlines()[-1][:60]}',
                                  f'{what}: exception reached the server loop: {escaped[-1][1][-1200:]}')
                if resp is None:
                    complete = self._is_complete_request(data)
                    if complete:
                        ctx.violation('C13.response', f'no-response:{label.split("@")[0]}',
                                      f'{what}: the request was complete (framing-wise) but no HTTP response came back '
                                      f'(connection closed={closed}, error={err})')
                    elif not closed and eof:
                        ctx.violation('C13.terminates', f'not-released-after-eof:{label.split("@")[0]}',
                                      f'{what}: peer sent EOF but the server neither answered nor closed the connection')
                    continue
                stats['answered'] += 1
                ctx.probe('answered')
                self._check_response(ctx, what, label, resp)
                rejected = resp.status >= 400 or self._is_fault(resp)
                if rejected:
                    ctx.probe('rejected')
                    after = state_snapshot()
                    if after != before and not self._background_only(before, after):
                        d = canon.diff(before, after)
                        ctx.violation('C13.unchanged', label.split('@')[0],
                                      f'{what}: rejected with {resp.status} but provider state changed: {d[:4]}')
        # duplicate delivery of every notification the consumer received in the healthy session (among them description
        # modification reports whose repeated 'create' part makes the consumer's handler raise)
        for addr, raw, m in corpus:
            if addr == caddr:
                ctx.probe('notifications_replayed')
                resp, closed, err = self._send(w, addr, raw, True, False)
                if resp is None:
                    ctx.violation('C13.response', 'no-response:replayed-notification',
                                  f'a notification delivered a second time got no HTTP response (closed={closed}, error={err})')
        w.settle(3.0)
        # a notification that is well-formed and schema-valid but inconsistent with the consumer MDIB (next MdibVersion,
        # states of a descriptor the consumer does not know / a description report that creates what exists already):
        # the consumer's handler may fail on it - the thread that processes notifications has to survive
        forged = 0
        for addr, raw, m in corpus:
            if addr != caddr or not m.raw_body:
                continue
            try:
                x = etree.fromstring(httpmsg.decode_body(m), parser=etree.XMLParser(resolve_entities=False, no_network=True))
                rep = x.find('{http://www.w3.org/2003/05/soap-envelope}Body')[0]
            except Exception:  # noqa: BLE001
                continue
            if rep.get('MdibVersion') is None:
                continue
            rep.set('MdibVersion', str((cm.mdib_version or 0) + 1))
            if 'DescriptionModificationReport' not in rep.tag:
                for el in rep.iter():
                    if el.get('DescriptorHandle') is not None and not el.tag.endswith('Descriptor'):
                        el.set('DescriptorHandle', 'no.such.descriptor')
                        break
            forged += 1
            ctx.probe('inconsistent_notifications')
            self._send(w, addr, rebuild(m, body=etree.tostring(x, xml_declaration=True, encoding='UTF-8'),
                                        headers={'Content-Encoding': None}), True, False)
            w.settle(2.0)
        worker = getattr(c._services_dispatcher, '_worker', None)
        if worker is not None and not worker.is_alive():
            ctx.violation('C13.escape', 'notification-worker-thread-ended',
                          'the thread of the consumer that processes queued notifications has ended: later notifications '
                          'are answered but never processed')
        ctx.nontrivial = stats['answered'] >= 20
        # after all of this both parties still work: a fresh commit of the provider reaches the consumer MDIB
        # (request handling that 'terminates' by killing the thread that processes notifications does not count)
        from decimal import Decimal
        with worldb.node(worldb.PROVIDER_IP):
            try:
                with w.mdib.metric_state_transaction() as mgr:
                    st = mgr.get_state('numeric.ch0.vmd0')
                    if st.MetricValue is None:
                        st.mk_metric_value()
                    st.MetricValue.Value = Decimal('4711.5')
            except Exception as ex:  # noqa: BLE001
                import traceback
                subs_ = [(o.notify_to_address, getattr(o, 'end_to_address', None)) for m_ in mgrs.values()
                         for o in m_._subscriptions.objects]
                ctx.violation('C13.unchanged', f'accepted-request-poisons-later-commits:{type(ex).__name__}',
                              f'a request of the malformed traffic was accepted and left the provider in a state in which '
                              f'an ordinary application transaction raises; subscriptions (NotifyTo, EndTo): {subs_}\n'
                              f'{traceback.format_exc()[-1200:]}')
        w.settle(5.0)
        ctx.probe('liveness_checked')
        with s.no_preempt():
            cst = cm.states.descriptor_handle.get_one('numeric.ch0.vmd0', allow_none=True)
            val = getattr(getattr(cst, 'MetricValue', None), 'Value', None)
        if val != Decimal('4711.5') and cm._state.name == 'initialized' and not forged:
            ctx.violation('C13.response', 'consumer-no-longer-processes-notifications',
                          f'after the malformed traffic a fresh provider commit (MdibVersion {w.mdib.mdib_version}) never '
                          f'reached the consumer MDIB (consumer at {cm.mdib_version}, value {val})')
        with s.no_preempt():
            txt = repr(canon.snap(w.mdib))
            if CANARY in txt:
                ctx.violation('C13.xxe', 'canary-in-mdib', 'content of an external entity ended up in the MDIB')
        if s.escaped:
            e = s.escaped[0]
            ctx.violation('C13.escape', f'thread-died:{e[1].split("(")[0]}', str(e)[:1500])

    @staticmethod
    def _background_only(before, after):
        # the example role providers commit alert self-check transactions in the background: only compare the
        # subscription table and the non-alert part of the mdib
        if before[1] != after[1]:
            return False
        b, a = before[0], after[0]
        for kind in ('descriptors', 'context'):
            if b[kind] != a[kind]:
                return False
        for k in set(b['states']) | set(a['states']):
            if b['states'].get(k) != a['states'].get(k) and not k.startswith('asy.'):
                return False
        return True

    # ------------------------------------------------------------------
    def _send(self, w, addr, data, eof, frag):
        """returns (response HttpMsg | None, server closed?, error text)"""
        s = w.s
        t = s.current
        prev = t.node
        t.node = ATT_IP
        try:
            try:
                sock = N.create_connection(addr, timeout=8.0)
            except OSError as ex:
                return None, True, repr(ex)
        finally:
            t.node = prev
        if frag:
            sock.conn.frag_max = 1
        try:
            sock.sendall(data)
            if eof:
                sock.shutdown(1)  # SHUT_WR
        except OSError as ex:
            pass
        buf = bytearray()
        resp = None
        closed = False
        err = None
        first_line = data.split(b'\r\n', 1)[0].split()
        if len(first_line) < 3 or not first_line[-1].startswith(b'HTTP/1'):
            # a request line without an HTTP/1.x version is an HTTP/0.9 simple request for http.server: it is answered
            # without status line and headers (standard library behaviour, outside the library under test)
            try:
                sock.settimeout(1.0)
                while sock.recv(65536):
                    pass
                closed = True
            except OSError:
                pass
            try:
                sock.close()
            except OSError:
                pass
            return None, True, 'http/0.9'
        try:
            resp, buf = httpmsg.read_from_socket(sock, False, buf)
            if resp is None:
                closed = True
        except httpmsg.Incomplete:
            closed = True
            err = f'incomplete response: {bytes(buf[:200])!r}'
        except httpmsg.FramingError as ex:
            err = f'response violates HTTP framing: {ex}'
            resp = None
            w.ctx.violation('C13.response', 'bad-http-response', err + f' {bytes(buf[:300])!r}')
        except TimeoutError:
            err = 'timeout'
        except OSError as ex:
            closed = True
            err = repr(ex)
        # drain: let the server finish whatever it still wants to write before we hang up (our own early close
        # would otherwise make its write fail - a broken pipe is the peer's doing, not the server's)
        try:
            sock.settimeout(1.0)
            for _ in range(50):
                if not sock.recv(65536):
                    closed = True
                    break
        except OSError:
            pass
        try:
            sock.close()
        except OSError:
            pass
        return resp, closed, err

    @staticmethod
    def _is_complete_request(data):
        try:
            m = httpmsg.parse_message(data, True)
            return m.consumed <= len(data)
        except (httpmsg.Incomplete, httpmsg.FramingError):
            return False

    @staticmethod
    def _is_fault(resp):
        try:
            body = httpmsg.decode_body(resp)
            return b'Fault' in body and b'Envelope' in body
        except Exception:  # noqa: BLE001
            return False

    def _check_response(self, ctx, what, label, resp):
        try:
            body = httpmsg.decode_body(resp)
        except Exception as ex:  # noqa: BLE001
            ctx.violation('C13.response', 'undecodable-body', f'{what}: response body cannot be decoded: {ex!r}')
            return
        if CANARY.encode() in body or CANARY in (resp.reason or ''):
            ctx.violation('C13.xxe', f'canary-in-response:{label.split("@")[0]}', f'{what}: the response contains the content of '
                                                                                 f'the external entity')
        if b'EXPANDED-INTERNAL-ENTITY' in body:
            ctx.violation('C13.xxe', f'entity-expanded:{label.split("@")[0]}', f'{what}: an internal entity was expanded and '
                                                                               f'echoed: {body[:300]!r}')
        ctype = (resp.header('content-type') or '').lower()
        if 200 <= resp.status < 300:
            if body and 'wsdl' not in what and 'soap+xml' in ctype:
                try:
                    x = etree.fromstring(body, parser=etree.XMLParser(resolve_entities=False, no_network=True))
                except etree.XMLSyntaxError as ex:
                    ctx.violation('C13.response', '2xx-not-xml', f'{what}: 2xx body is not XML: {ex}')
                    return
                if etree.QName(x.tag).localname == 'Envelope':
                    err = xsd.validate(x)
                    if err:
                        ctx.violation('C13.response', '2xx-schema', f'{what}: 2xx SOAP envelope violates the schema: {err[:400]}')
        elif body and 'soap+xml' in ctype:
            try:
                x = etree.fromstring(body, parser=etree.XMLParser(resolve_entities=False, no_network=True))
            except etree.XMLSyntaxError as ex:
                ctx.violation('C13.response', 'error-body-not-xml', f'{what}: status {resp.status} claims soap+xml but the body is '
                                                                   f'not well-formed: {ex}; {body[:200]!r}')
                return
            if x.find(f'{{{NS["s12"]}}}Body/{{{NS["s12"]}}}Fault') is None:
                ctx.violation('C13.response', 'error-body-not-fault', f'{what}: status {resp.status} with a soap+xml body that is '
                                                                     f'not a SOAP 1.2 fault: {body[:300]!r}')

    # ------------------------------------------------------------------
    def _cases(self, rng, raw, m, window, ctx, trunc_cap=260):
        cases = [('replay-unchanged', raw, True, False)]  # the very same message once more (duplicate delivery)
        head_end = raw.find(b'\r\n\r\n') + 4
        # (a) truncation at every offset of a window: the whole header part is small enough; the body window is sampled
        offs = set(range(0, min(head_end, 600)))
        if m.chunked:
            offs |= set(range(head_end, min(len(raw), head_end + 24)))  # first chunk header + first bytes
            offs |= set(range(max(head_end, len(raw) - 12), len(raw)))  # last chunk + trailer
        start = rng.randrange(head_end, max(head_end + 1, len(raw)))
        offs |= set(range(start, min(len(raw), start + window)))
        for k in sorted(offs):
            if rng.random() < (1.0 if len(offs) < trunc_cap else float(trunc_cap) / len(offs)):
                cases.append((f'truncate@{k}', raw[:k], True, False))
                ctx.probe('truncations')
        body = httpmsg.decode_body(m) if m.raw_body else b''
        # (b) framing faults
        fr = [
            ('content-length-longer', rebuild(m)[:-0 or None].replace(b'Content-Length: ' + str(len(m.raw_body)).encode(),
                                                                      b'Content-Length: ' + str(len(m.raw_body) + 50).encode()), True, False),
            ('content-length-shorter', rebuild(m).replace(b'Content-Length: ' + str(len(m.raw_body)).encode(),
                                                          b'Content-Length: ' + str(max(0, len(m.raw_body) - 7)).encode()), True, False),
            ('content-length-not-a-number', rebuild(m).replace(b'Content-Length: ' + str(len(m.raw_body)).encode(),
                                                              b'Content-Length: abc'), True, False),
            ('chunked-1', rebuild(m, chunked=chunks_of(1)) if len(m.raw_body) < 3000 else rebuild(m, chunked=chunks_of(97)), True, False),
            ('chunk-negative', rebuild(m, chunked=lambda r: b'-5\r\n' + r[:5] + b'\r\n0\r\n\r\n'), True, False),
            ('chunk-huge', rebuild(m, chunked=lambda r: b'7fffffff\r\n' + r + b'\r\n0\r\n\r\n'), True, False),
            ('chunk-non-hex', rebuild(m, chunked=lambda r: b'zz\r\n' + r + b'\r\n0\r\n\r\n'), True, False),
            ('chunk-extension', rebuild(m, chunked=lambda r: f'{len(r):x};name=value\r\n'.encode() + r + b'\r\n0\r\n\r\n'), True, False),
            ('chunk-missing-final', rebuild(m, chunked=lambda r: f'{len(r):x}\r\n'.encode() + r + b'\r\n'), True, False),
            ('chunk-missing-crlf', rebuild(m, chunked=lambda r: f'{len(r):x}\r\n'.encode() + r + b'0\r\n\r\n'), True, False),
            ('chunk-size-line-too-long', rebuild(m, chunked=lambda r: b'0' * 40 + b'1\r\nx\r\n0\r\n\r\n'), True, False),
            ('fragment-1-byte', raw if len(raw) < 6000 else rebuild(m, body=m.raw_body[:10]), True, True),
            ('no-length-no-chunking', rebuild(m).replace(b'Content-Length: ' + str(len(m.raw_body)).encode() + b'\r\n', b''), True, False),
        ]
        for x in fr:
            cases.append(x)
            ctx.probe('framing_faults')
        # codings
        cases.append(('coding-unsupported', rebuild(m, headers={'Content-Encoding': 'br'}), True, False))
        cases.append(('coding-gzip-garbage', rebuild(m, body=b'\x1f\x8b\x08\x00garbage-not-gzip', headers={'Content-Encoding': 'gzip'}), True, False))
        import zlib
        co = zlib.compressobj(wbits=16 + zlib.MAX_WBITS)
        gz = co.compress(body or b'<x/>') + co.flush()
        cases.append(('coding-gzip-truncated', rebuild(m, body=gz[:max(12, len(gz) // 2)], headers={'Content-Encoding': 'gzip'}), True, False))
        cases.append(('coding-lz4-garbage', rebuild(m, body=b'\x04"M\x18garbage', headers={'Content-Encoding': 'x-lz4'}), True, False))
        ctx.probe('bad_coding', 4)
        # complete, well-framed requests with unusual header values (q-values that are not numbers, empty members,
        # unknown charsets ...): whatever the answer is, there has to be one and nothing may escape
        weird = [('Accept-Encoding', v) for v in ('gzip;q=high', 'gzip;q=', 'identity;q=1.0.0', ';q=1', 'gzip;;', ',,,',
                                                   'gzip; q = 0.5 ; x=y', 'gzip;q=-1', 'gzip;q=1e400', '*;q=abc, x-lz4',
                                                   'a,' * 800)]
        weird += [('Host', v) for v in ('10.0.0.1:http', '10.0.0.1:999990', '[::1', '', 'a b', '10.0.0.1:', ':80')]
        weird += [('Content-Type', 'application/soap+xml; charset=no-such-charset'), ('Content-Type', ''),
                  ('Content-Encoding', 'identity'), ('Content-Encoding', ' '), ('Connection', 'close, keep-alive, x'),
                  ('Expect', '100-continue'), ('Content-Length', f'+{len(m.raw_body)}'), ('Accept', 'text/*;q=x')]
        for name, v in rng.sample(weird, 9):
            cases.append((f'header:{name}:{v[:16]}', rebuild(m, headers={name: v}), True, False))
            ctx.probe('unusual_header_values')
        # wrong path / content type / method
        cases.append(('wrong-path', rebuild(m, start=m.start.replace(m.path, '/no/such/path')), True, False))
        cases.append(('empty-path', rebuild(m, start=m.start.replace(m.path, '/')), True, False))
        cases.append(('wrong-content-type', rebuild(m, headers={'Content-Type': 'text/plain'}), True, False))
        cases.append(('method-put', rebuild(m, start=m.start.replace(m.method, 'PUT', 1)), True, False))
        cases.append(('bit-flips', self._flip(rng, raw, head_end), True, False))
        if body and m.method == 'POST':
            for label, xml in self._xml_mutations(rng, body):
                cases.append((label, rebuild(m, body=xml, headers={'Content-Encoding': None}), True, False))
                ctx.probe('doctype' if label.startswith('doctype') else 'xml_mutations')
        return cases

    @staticmethod
    def _flip(rng, raw, head_end):
        b = bytearray(raw)
        if len(b) > head_end + 4:
            for _ in range(rng.randint(1, 4)):
                i = rng.randrange(head_end, len(b))
                b[i] ^= 1 << rng.randrange(8)
        return bytes(b)

    def _xml_mutations(self, rng, body):
        out = []
        try:
            root = etree.fromstring(body, parser=etree.XMLParser(resolve_entities=False, no_network=True))
        except etree.XMLSyntaxError:
            return out

        def clone():
            return etree.fromstring(etree.tostring(root))

        def ser(x):
            return etree.tostring(x, xml_declaration=True, encoding='UTF-8')

        for _ in range(6):
            x = clone()
            els = list(x.iter())
            el = rng.choice(els)
            kind = rng.choice(['delete', 'duplicate', 'rename', 'rename-ns', 'attr-delete', 'attr-rename', 'number', 'text',
                               'action', 'msgid-delete'])
            try:
                if kind == 'delete' and el.getparent() is not None:
                    el.getparent().remove(el)
                elif kind == 'duplicate' and el.getparent() is not None:
                    el.getparent().append(etree.fromstring(etree.tostring(el)))
                elif kind == 'rename':
                    el.tag = etree.QName(etree.QName(el.tag).namespace, 'Renamed' + etree.QName(el.tag).localname)
                elif kind == 'rename-ns':
                    el.tag = etree.QName('urn:wrong:ns', etree.QName(el.tag).localname)
                elif kind == 'attr-delete' and el.attrib:
                    del el.attrib[rng.choice(list(el.attrib))]
                elif kind == 'attr-rename' and el.attrib:
                    k = rng.choice(list(el.attrib))
                    v = el.attrib.pop(k)
                    el.set('Bogus' + etree.QName(k).localname, v)
                elif kind == 'number':
                    cands = [e for e in els if e.text and e.text.strip().lstrip('-').isdigit()] + \
                            [e for e in els if any(v.lstrip('-').isdigit() for v in e.attrib.values())]
                    if cands:
                        e = rng.choice(cands)
                        val = rng.choice(['-1', '99999999999999999999999999', '1e9', 'NaN', ''])
                        if e.text and e.text.strip().lstrip('-').isdigit():
                            e.text = val
                        else:
                            for k, v in e.attrib.items():
                                if v.lstrip('-').isdigit():
                                    e.set(k, val)
                                    break
                elif kind == 'text':
                    el.text = rng.choice(['', ' ', 'x' * 5000, 'ä雪', 'urn:uuid:not-a-uuid'])
                elif kind == 'action':
                    a = x.find(f'{{{NS["s12"]}}}Header/{{{NS["wsa"]}}}Action')
                    if a is not None:
                        a.text = rng.choice(['http://example.org/unknown/Action', '', a.text + 'X'])
                elif kind == 'msgid-delete':
                    a = x.find(f'{{{NS["s12"]}}}Header/{{{NS["wsa"]}}}MessageID')
                    if a is not None:
                        a.getparent().remove(a)
            except Exception:  # noqa: BLE001
                continue
            out.append((f'xml-{kind}', ser(x)))
        # DOCTYPE / entities
        plain = etree.tostring(root).decode()
        first_text = None
        # prefer wsa:MessageID: every response (also a fault) echoes it as wsa:RelatesTo
        mid_el = root.find(f'{{{NS["s12"]}}}Header/{{{NS["wsa"]}}}MessageID')
        if mid_el is not None and mid_el.text and rng.random() < 0.7:
            first_text = mid_el.text
        else:
            for e in root.iter():
                if e.text and e.text.strip() and len(e) == 0:
                    first_text = e.text
                    break
        if first_text and first_text in plain:
            doc1 = ('<?xml version="1.0"?><!DOCTYPE d [<!ENTITY e "EXPANDED-INTERNAL-ENTITY">]>'
                    + plain.replace(first_text, '&e;', 1))
            out.append(('doctype-internal-entity', doc1.encode()))
            doc2 = (f'<?xml version="1.0"?><!DOCTYPE d [<!ENTITY x SYSTEM "file://{CANARY_PATH}">]>'
                    + plain.replace(first_text, '&x;', 1))
            out.append(('doctype-external-file', doc2.encode()))
            doc3 = ('<?xml version="1.0"?><!DOCTYPE d [<!ENTITY a "aaaaaaaaaa"><!ENTITY b "&a;&a;&a;&a;&a;&a;&a;&a;">'
                    '<!ENTITY c "&b;&b;&b;&b;&b;&b;&b;&b;"><!ENTITY d "&c;&c;&c;&c;&c;&c;&c;&c;">]>'
                    + plain.replace(first_text, '&d;', 1))
            out.append(('doctype-entity-bomb', doc3.encode()))
            doc4 = ('<?xml version="1.0"?><!DOCTYPE d SYSTEM "http://10.66.66.66/evil.dtd">' + plain)
            out.append(('doctype-external-dtd', doc4.encode()))
        return out


def _exc_text():
    import traceback
    return traceback.format_exc()


CHECK = C13()
