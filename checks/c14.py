"""C14 - WS-Discovery answers and records exactly what its matching rules prescribe (world C).
The session builder and the instrumentation are shared with C15."""
from __future__ import annotations

import random as _random

from lxml import etree

from dsim import net as N, sched as S, worldc as WC
from dsim.base import CheckBase, draw_sched_config

SCOPE_POOL = [
    'sdc.ctxt.loc:/sdc.ctxt.loc.detail/fac1%2Fa/bldng1/poc1//rm1/bed1?fac=fac1%2Fa&bldng=bldng1&poc=poc1&rm=rm1&bed=bed1',
    'http://Example.COM/a/b', 'http://example.com/a/b/c', 'http://example.com/a/b/', 'http://example.com/a%2Fb/c',
    'http://example.com/a/bc', 'HTTP://example.com/a', 'http://example.com:8080/a/b', 'http://user@example.com/a/b',
    'http://example.com/a//b', 'http://example.com', 'urn:x:y', 'ldap:///ou=eng,o=ex,c=us', 'http://example.com/A/b',
    'http://example.com/%61/b',
]
RULES = [None, None, WC.WSD + '/rfc3986', WC.WSD + '/strcmp0']


class Session:
    """builds the nodes, instruments them and executes the plan; records everything both oracles need"""

    def __init__(self, ctx, plan):
        self.ctx = ctx
        self.plan = plan
        self.s = ctx.s
        self.nodes = []  # WSDiscovery instances
        self.acted = []  # (node, t, step, parsed message) for every message handed to handle_received_message
        self.probe_checks = []  # (node, parsed probe, expected eprs, sent eprs)
        self.resolve_sent = []  # (node, epr, was_local)
        self.table_problems = []
        self.api_errors = []  # (op id, kind, exception type, traceback) of API calls that raised
        self.models = []  # per node: epr -> {'mv': int, 'max_entries': [entry...]}
        self.enq = []  # (node, t_enqueue, mid, repeat params name, [(send_time, repeat)])
        self.own_mids = []  # per node set of own message ids
        self.once_problems = []
        self.recent = []  # per node list of (mid) in order seen/sent

    def build(self):
        from sdc11073.wsdiscovery import WSDiscovery
        from sdc11073.wsdiscovery import networkingthread as nt
        plan = self.plan
        s = self.s
        net = N.NET
        rng = _random.Random(plan['sched']['seed'] ^ 0x51)
        f = plan['faults']
        net.udp_policy = WC.mk_udp_policy(net.rng, f['drop'], f['dup'], f['delay'])
        if plan.get('bias'):
            br = _random.Random(plan['sched']['seed'] ^ 0xB1A5)

            class Biased:
                def __getattr__(self, name):
                    return getattr(_random, name)

                @staticmethod
                def randint(a, b):
                    r = br.random()
                    if r < 0.25:
                        return a
                    if r < 0.5:
                        return b
                    return br.randint(a, b)

                @staticmethod
                def randrange(a, b):
                    r = br.random()
                    if r < 0.25:
                        return a
                    if r < 0.5:
                        return b - 1
                    return br.randrange(a, b)

            nt.random = Biased()
        else:
            nt.random = _random
        for i in range(plan['nodes']):
            ip = WC.NODE_IPS[i]
            t = s.current
            prev = t.node
            t.node = ip
            try:
                wsd = WSDiscovery(ip)
                wsd.start()
            finally:
                t.node = prev
            self.nodes.append(wsd)
            self.models.append({})
            self.own_mids.append(set())
            self.recent.append([])
            self._instrument(i, wsd)
        self.adv = WC.Adversary()

    def _instrument(self, i, wsd):
        s = self.s
        sess = self
        nthread = wsd._networking_thread
        orig_handle = wsd.handle_received_message
        orig_spm = wsd._send_probe_match
        orig_srm = wsd._send_resolve_match
        orig_add = nthread.add_outbound_message
        orig_enq = nthread._repeated_enqueue_msg
        sent_now = []

        entries_by_msg = {}
        if self.plan.get('send_queue_size'):
            nthread._send_queue.maxsize = self.plan['send_queue_size']
            self.ctx.probe('small_send_queue')
        orig_put = nthread._send_queue.put

        def put(item, *a, **kw):
            # several threads enqueue concurrently: attribute every queue entry to its message object
            key = id(getattr(getattr(item, 'msg', None), 'created_message', None))
            entries_by_msg.setdefault(key, []).append((item.send_time, item.repeat))
            return orig_put(item, *a, **kw)

        nthread._send_queue.put = put

        def add_outbound(msg, addr, port, params):
            mid = msg.p_msg.header_info_block.MessageID
            sess.own_mids[i].add(mid)
            sess.recent[i].append(mid)
            t0 = S.sim_time()
            orig_add(msg, addr, port, params)
            sess.enq.append({'node': i, 't': t0, 'mid': mid, 'params': params,
                             'entries': entries_by_msg.pop(id(msg), []), 'dst': (addr, port)})

        nthread.add_outbound_message = add_outbound

        def spm(services, relates_to, addr):
            sent_now.append([sv.epr for sv in services])
            return orig_spm(services, relates_to, addr)

        wsd._send_probe_match = spm

        def srm(service, relates_to, addr):
            sess.resolve_sent.append((i, service.epr, service.epr in wsd._local_services))
            return orig_srm(service, relates_to, addr)

        wsd._send_resolve_match = srm

        def handle(received_message, addr_from):
            raw = received_message.p_msg.raw_data if hasattr(received_message.p_msg, 'raw_data') else None
            node = received_message.p_msg.msg_node.getroottree().getroot() if raw is None else None
            data = raw if isinstance(raw, (bytes, bytearray)) else etree.tostring(node if node is not None else received_message.p_msg.msg_node.getroottree())
            pm = WC.parse_wsd(bytes(data))
            mid = pm['mid'] if pm else None
            # C14.once
            recent200 = sess.recent[i][-200:]
            if mid is not None and mid in recent200:
                sess.once_problems.append((i, mid, pm['kind'] if pm else '?',
                                           'own' if mid in sess.own_mids[i] else 'foreign'))
            if mid is not None:
                sess.recent[i].append(mid)
            sess.acted.append((i, s.now, s.steps, pm, mid is not None and mid in recent200))
            local_before = {e: (list(sv.types or []), list(sv.scopes.text) if sv.scopes is not None else [])
                            for e, sv in wsd._local_services.items()}
            del sent_now[:]
            orig_handle(received_message, addr_from)
            if pm is None:
                return
            if pm['kind'] == 'Probe':
                p = pm['probe']
                exp = sorted(e for e, (ty, sc) in local_before.items()
                             if WC.ref_matches([(t.namespace, t.localname) for t in ty], sc, p['types'], p['scopes'], p['rule']))
                got = sorted(x for lst in sent_now for x in lst)
                sess.probe_checks.append((i, p, exp, got))
            sess._update_model(i, pm)
            sess._check_table(i, wsd, pm)

        wsd.handle_received_message = handle

    def _update_model(self, i, pm):
        model = self.models[i]
        k = pm['kind']
        if k == 'Bye':
            for e in pm['entries']:
                model.pop(e['epr'], None)
            return
        if k not in ('Hello', 'ProbeMatches', 'ResolveMatches'):
            return
        if not pm['has_appseq']:
            return  # the library ignores announcements without the (mandatory) AppSequence header
        for e in pm['entries']:
            if not e['epr']:
                continue
            mv = e['mv'] if e['mv'] is not None else 1
            cur = model.get(e['epr'])
            if cur is None or mv > cur['mv']:
                model[e['epr']] = {'mv': mv, 'n': 1, 'entry': e}
            elif mv == cur['mv']:
                cur['n'] += 1

    def _check_table(self, i, wsd, pm):
        model = self.models[i]
        table = wsd._remote_services
        got = {e: sv.metadata_version for e, sv in table.items()}
        exp = {e: m['mv'] for e, m in model.items()}
        if got != exp:
            missing = sorted(set(exp) - set(got))
            extra = sorted(set(got) - set(exp))
            wrong = sorted(e for e in set(exp) & set(got) if exp[e] != got[e])
            self.table_problems.append((i, pm['kind'], f'after {pm["kind"]} (mid {pm["mid"]}): missing={missing[:3]} '
                                                       f'extra={extra[:3]} wrong-version={[(e, got[e], exp[e]) for e in wrong[:3]]}'))
        else:
            for e, m in model.items():
                if m['n'] == 1:
                    sv = table[e]
                    ent = m['entry']
                    if sorted(sv.x_addrs) != sorted(ent['xaddrs']):
                        self.table_problems.append((i, 'content', f'service {e} (MetadataVersion {m["mv"]}) has XAddrs '
                                                                  f'{sv.x_addrs}, announcement had {ent["xaddrs"]}'))

    # ------------------------------------------------------------------
    def _api(self, op, fn, *a, **kw):
        """a legal call of the discovery API; an exception out of it is kept for the verdict of the calling check"""
        try:
            return fn(*a, **kw)
        except Exception as ex:  # noqa: BLE001
            import traceback
            self.api_errors.append((op['id'], op['k'], type(ex).__name__, traceback.format_exc()[-1500:]))
            return None

    def run_ops(self):
        from sdc11073.xml_types import wsd_types
        s = self.s
        plan = self.plan
        midn = [0]

        def mid():
            midn[0] += 1
            return f'urn:uuid:adv-{midn[0]:06d}'

        for op in plan['ops']:
            s.reseed('op', op['id'])
            k = op['k']
            n = op.get('node', 0) % len(self.nodes)
            wsd = self.nodes[n]
            t = s.current
            t.node = WC.NODE_IPS[n]
            if k == 'publish':
                scopes = wsd_types.ScopesType(value=None)
                scopes.text = list(op['scopes'])
                self._api(op, wsd.publish_service, op['epr'], [WC.qn(x) for x in op['types']], scopes,
                          [f'http://{WC.NODE_IPS[n]}:999/{op["epr"][-4:]}'])
                self.ctx.probe('publish')
            elif k == 'clear':
                if op['epr'] in wsd._local_services:
                    self._api(op, wsd.clear_service, op['epr'])
                    self.ctx.probe('clear')
            elif k == 'search':
                scopes = None
                if op['scopes'] is not None:
                    scopes = wsd_types.ScopesType(value=None)
                    scopes.text = list(op['scopes'])
                    if op['rule']:
                        scopes.MatchBy = op['rule']
                types = [WC.qn(x) for x in op['types']] if op['types'] is not None else None
                self._api(op, wsd.search_services, types, scopes, timeout=op['timeout'], repeat_probe_interval=op['timeout'])
                self.ctx.probe('search')
            elif k == 'adv':
                t.node = WC.ADV_IP
                m = op['msg']
                data = WC.build(m['kind'], m.get('mid') or mid(), m.get('epr'), m.get('mv'), m.get('types'), m.get('scopes'),
                                m.get('xaddrs'), tuple(m['appseq']) if m.get('appseq') else None,
                                relates=m.get('relates'))
                dst = None
                if m['kind'] in ('ProbeMatches', 'ResolveMatches'):
                    sock = wsd._networking_thread.multi_out_uni_in_out
                    dst = sock.getsockname()
                for _ in range(m.get('copies', 1)):
                    self.adv.send(data, dst)
                self.ctx.probe('adversary_' + m['kind'])
            elif k == 'flood':
                # fill the nodes' memory of message ids (deque of 200) with cheap distinct announcements
                t.node = WC.ADV_IP
                for j in range(op['n']):
                    data = WC.build('Bye', f'urn:uuid:flood-{op["id"]}-{j}', epr=f'urn:uuid:flood-epr-{j % 3}', appseq=(1, j + 1))
                    self.adv.send(data)
                    if j % 20 == 19:
                        s.sleep(0.01)
                self.ctx.probe('flood')
            elif k == 'wait':
                s.sleep(op['t'])
            t.node = None
        s.sleep(6.0)  # let retransmissions finish


class C14(CheckBase):
    id = 'C14'
    level = 'exploration'
    line_allow = ('sdc11073/wsdiscovery/',)
    rule = ('one evaluation = one simulated discovery session: 2-4 real WSDiscovery nodes and an adversary on a simulated '
            'UDP network with loss / duplication / delay; 8-40 seeded operations (publish with scope URIs from a pool with '
            'mixed case, %2F, empty segments, trailing slashes, ports and userinfo; re-publish; clear; search with types / '
            'scopes / MatchBy; adversary Hello / Bye / ProbeMatches / ResolveMatches with arbitrary metadata versions, missing '
            'parts, repeated message ids); every Probe acted on is compared with a reference matcher, the discovered-service '
            'table with a model after every message, message ids against the last 200; non-trivial = a datagram fault fired '
            'or an adversary message was processed; distinct = event-log digest')
    components = {'real': ['WSDiscovery', 'NetworkingThread (recv / queue-read / send threads)', 'wsd_types', 'msgreader/'
                           'msgfactory of discovery', 'Service'], 'stub': ['UDP sockets / selectors (simulated)', 'adversary node']}
    assumptions = ['announcements without the mandatory AppSequence header are ignored (library setting '
                   'allow_missing_app_sequence=False)', 'only the rfc3986 (default) and strcmp0 rules are judged',
                   'content of a table entry is only compared when exactly one announcement with the highest metadata '
                   'version was seen']
    expected_probes = ['flood', 'publish', 'search', 'clear', 'adversary_Hello', 'adversary_Bye', 'adversary_ProbeMatches',
                       'adversary_ResolveMatches', 'probes_checked', 'udp_drop', 'udp_dup', 'udp_delay']
    max_steps = 6_000_000

    def budget(self, tier):
        return {'quick': {'runs': 300, 'wall': 80}, 'thorough': {'runs': 15000, 'wall': 1500}}[tier]

    def generate(self, rng, tier):
        nodes = rng.randint(2, 4)
        eprs = [f'urn:uuid:0000000{i}-0000-0000-0000-00000000000{i}' for i in range(6)]
        adv_eprs = [f'urn:uuid:adv0000{i}-0000-0000-0000-00000000000{i}' for i in range(4)]
        ops = []
        published = {}
        midpool = []
        for i in range(rng.randint(8, 40 if tier == 'thorough' else 20)):
            k = rng.choice(['publish', 'publish', 'search', 'search', 'clear', 'adv', 'adv', 'adv', 'wait'])
            op = {'id': i, 'k': k, 'node': rng.randrange(nodes)}
            if k == 'publish':
                op['epr'] = rng.choice(eprs)
                op['node'] = published.get(op['epr'], op['node'])
                published[op['epr']] = op['node']
                op['types'] = rng.sample(WC.TYPE_POOL, rng.randint(1, 3))
                op['scopes'] = rng.sample(SCOPE_POOL, rng.randint(0, 3))
            elif k == 'clear':
                if not published:
                    continue
                op['epr'] = rng.choice(sorted(published))
                op['node'] = published[op['epr']]
            elif k == 'search':
                op['types'] = rng.choice([None, None, rng.sample(WC.TYPE_POOL, rng.randint(1, 2))])
                op['scopes'] = rng.choice([None, rng.sample(SCOPE_POOL, rng.randint(1, 2)), [rng.choice(SCOPE_POOL)]])
                op['rule'] = rng.choice(RULES)
                op['timeout'] = rng.choice([0.3, 1.0, 2.5])
            elif k == 'adv':
                kind = rng.choice(['Hello', 'Hello', 'Bye', 'ProbeMatches', 'ResolveMatches'])
                m = {'kind': kind, 'epr': rng.choice(adv_eprs + eprs[:1]), 'mv': rng.choice([None, 1, 2, 3, 7]),
                     'types': rng.choice([None, rng.sample(WC.TYPE_POOL, 1)]),
                     'scopes': rng.choice([None, [rng.choice(SCOPE_POOL)]]),
                     'xaddrs': rng.choice([None, ['http://10.9.9.9:1/x'], ['http://10.9.9.9:1/x', 'http://10.9.9.8:1/y']]),
                     'appseq': rng.choice([[1, 1], [5, 2], [1, 1], None]), 'copies': rng.choice([1, 1, 2, 3])}
                if kind == 'Hello' and m['mv'] is None:
                    m['mv'] = 1  # MetadataVersion is mandatory in Hello
                if kind in ('ProbeMatches', 'ResolveMatches'):
                    m['mv'] = m['mv'] or 1
                    m['relates'] = 'urn:uuid:some-probe'
                if kind == 'Bye':
                    m['types'] = m['scopes'] = m['xaddrs'] = None
                if midpool and rng.random() < 0.2:
                    m['mid'] = rng.choice(midpool)  # repeated message id
                else:
                    m['mid'] = f'urn:uuid:advmsg-{i}'
                    midpool.append(m['mid'])
                op['msg'] = m
            else:
                op['t'] = rng.choice([0.05, 0.6, 2.0])
            ops.append(op)
        if rng.random() < 0.3:
            ops.insert(rng.randrange(0, max(1, len(ops) // 2)), {'id': 1000, 'k': 'flood', 'n': rng.choice([190, 205, 260])})
        return {'sched': draw_sched_config(rng), 'nodes': nodes, 'ops': ops,
                'faults': {'drop': rng.choice([0.0, 0.1, 0.3]), 'dup': rng.choice([0.0, 0.1, 0.3]),
                           'delay': rng.choice([0.0, 0.2])}, 'bias': False}

    def body(self, ctx):
        sess = Session(ctx, ctx.plan)
        sess.build()
        sess.run_ops()
        s = ctx.s
        for oid, kind, exname, tb in sess.api_errors:
            ctx.violation('C14.probe', f'api-raised:{kind}:{exname}',
                          f'operation {oid} ({kind}): the discovery API raised, the announcement / search did not take '
                          f'place as prescribed:\n{tb}')
        with s.no_preempt():
            for i, p, exp, got in sess.probe_checks:
                ctx.probe('probes_checked')
                if p['rule'] not in (None, WC.WSD + '/rfc3986', WC.WSD + '/strcmp0'):
                    continue
                if exp != sorted(set(got)) or len(got) != len(set(got)):
                    ctx.violation('C14.probe', f'{"answered-not-matching" if set(got) - set(exp) else "matching-not-answered"}:'
                                               f'{(p["rule"] or "default").rsplit("/", 1)[-1]}',
                                  f'node {i}: Probe types={p["types"]} scopes={p["scopes"]} rule={p["rule"]}: answered for '
                                  f'{got}, matching local services are {exp}')
            for i, epr, was_local in sess.resolve_sent:
                if not was_local:
                    ctx.violation('C14.resolve', 'not-published', f'node {i} sent ResolveMatches for {epr} which it does not publish')
            for i, kind, txt in sess.table_problems:
                ctx.violation('C14.table', kind, f'node {i}: {txt}')
            for i, mid, kind, whose in sess.once_problems:
                ctx.violation('C14.once', f'{whose}:{kind}', f'node {i} acted on message id {mid} ({kind}) although it is among '
                                                             f'the last 200 ids it has seen or sent')
        ctx.nontrivial = any(N.NET.fault_counts.get(k) for k in ('udp_drop', 'udp_dup', 'udp_delay')) or \
            any(k.startswith('adversary') for k in ctx.probes)
        for wsd in sess.nodes:
            try:
                wsd._networking_thread.schedule_stop()
            except Exception:  # noqa: BLE001
                pass


CHECK = C14()
