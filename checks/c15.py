"""C15 - discovery datagrams are retransmitted within the SOAP-over-UDP time envelope (world C; the virtual clock and
the PRNG draws are exactly the seams here; a subset of runs forces boundary draws)."""
from __future__ import annotations

from checks.c14 import C14, Session
from dsim import net as N, worldc as WC
from dsim.base import CheckBase

TOL = 1e-6


class C15(CheckBase):
    id = 'C15'
    level = 'exploration'
    line_allow = ('sdc11073/wsdiscovery/networkingthread.py',)
    rule = ('one evaluation = one simulated discovery session (same session generator as C14: 2-4 real nodes, 8-40 '
            'operations, UDP faults) in which every outbound message is tracked from add_outbound_message through the send '
            'queue to sendto on the virtual clock; in half of the runs each random draw returns its minimum or maximum with '
            'probability 0.5; non-trivial = >= 3 outbound messages with all their repetitions observed; distinct = '
            'event-log digest')
    components = C14.components
    assumptions = ['send-loop raster: a datagram may leave up to 0.12 virtual s after its scheduled time (idle 0.1 s + busy '
                   '0.01 s sleep of the send loop)', 'parameters are read from UNICAST/MULTICAST_REPEAT_PARAMS of the tree under test']
    expected_probes = ['messages_checked', 'multicast_messages', 'unicast_messages', 'boundary_runs', 'loopback_datagrams',
                       'small_send_queue']
    max_steps = 6_000_000

    def budget(self, tier):
        return {'quick': {'runs': 300, 'wall': 80}, 'thorough': {'runs': 15000, 'wall': 1500}}[tier]

    def generate(self, rng, tier):
        plan = C14.generate(self, rng, tier)
        plan['bias'] = rng.random() < 0.5
        # tuning knob: the bounded send queue (10000 entries in production) is small in some runs, so that its
        # "full" path is reached by an ordinary burst
        plan['send_queue_size'] = rng.choice([None, None, None, 3, 7])
        plan['faults'] = {'drop': 0.0, 'dup': rng.choice([0.0, 0.2]), 'delay': rng.choice([0.0, 0.2])}
        return plan

    def body(self, ctx):
        sess = Session(ctx, ctx.plan)
        sess.build()
        if ctx.plan.get('bias'):
            ctx.probe('boundary_runs')
        sess.run_ops()
        s = ctx.s
        for oid, kind, exname, tb in sess.api_errors:
            ctx.violation('C15.count', f'api-raised:{kind}:{exname}',
                          f'operation {oid} ({kind}): the discovery API raised while scheduling the transmissions of a '
                          f'message (it is not transmitted 1 + repeat times):\n{tb}')
        net = N.NET
        from sdc11073.wsdiscovery import networkingthread as nt
        with s.no_preempt():
            # datagrams actually sent, per (node ip, message id)
            sent = {}
            for d in net.udp_log:
                pm = WC.parse_wsd(d['data'])
                if pm is None or pm['mid'] is None:
                    continue
                sent.setdefault((d['src'][0], pm['mid']), []).append(d['t'])
            checked = 0
            for e in sess.enq:
                p = e['params']
                ip = WC.NODE_IPS[e['node']]
                ent = e['entries']
                kind = 'multicast' if p is nt.MULTICAST_REPEAT_PARAMS else 'unicast'
                ctx.probe(f'{kind}_messages')
                where = f'node {e["node"]} message {e["mid"]} ({kind}, repeat={p.repeat})'
                if len(ent) != 1 + p.repeat:
                    ctx.violation('C15.count', f'queue-entries:{kind}:{len(ent)}', f'{where}: {len(ent)} transmissions scheduled, '
                                                                                   f'expected {1 + p.repeat}')
                times = [t for t, _ in ent]
                t_enq = e['t']
                if times[0] < t_enq - TOL or times[0] > t_enq + p.max_initial_delay_ms / 1000.0 + TOL:
                    ctx.violation('C15.envelope', f'initial-delay:{kind}', f'{where}: first transmission scheduled '
                                                                           f'{times[0] - t_enq:.4f}s after enqueue (max '
                                                                           f'{p.max_initial_delay_ms / 1000.0})')
                gaps = [b - a for a, b in zip(times, times[1:])]
                if gaps:
                    g0 = gaps[0]
                    if g0 < p.min_delay_ms / 1000.0 - TOL or g0 > p.max_delay_ms / 1000.0 + TOL:
                        ctx.violation('C15.envelope', f'first-gap:{kind}', f'{where}: first gap {g0:.4f}s outside '
                                                                           f'[{p.min_delay_ms / 1000.0}, {p.max_delay_ms / 1000.0}]')
                    upper = p.upper_delay_ms / 1000.0
                    for n, (ga, gb) in enumerate(zip(gaps, gaps[1:])):
                        want = min(2 * ga, upper)
                        if abs(gb - want) > 1e-4:
                            ctx.violation('C15.envelope', f'gap-{n + 2}:{kind}:{"exceeds-upper" if gb > upper + 1e-4 else "not-doubled"}',
                                          f'{where}: gaps {[round(g, 4) for g in gaps]}: gap {n + 2} is {gb:.4f}s, expected '
                                          f'min(2*{ga:.4f}, {upper}) = {want:.4f}s')
                # actual transmissions (send faults are not injected in this check)
                act = sorted(sent.get((ip, e['mid']), []))
                epoch_off = 0.0
                if len(act) != 1 + p.repeat:
                    ctx.violation('C15.count', f'datagrams:{kind}:{len(act)}', f'{where}: {len(act)} datagrams left the node, '
                                                                              f'expected {1 + p.repeat}')
                for sched_t, real_t in zip(times, act):
                    # scheduled times are wall clock (time.time()), udp log is virtual monotonic
                    from dsim import sched as S
                    rt = S.EPOCH0 + real_t + s.wall_skew
                    late_ok = ctx.plan.get('send_queue_size') is not None  # (a full queue delays the enqueuing itself)
                    if rt < sched_t - 1e-6 or (rt > sched_t + 0.12 + 1e-6 and not late_ok):
                        ctx.violation('C15.raster', f'{kind}:{"early" if rt < sched_t else "late"}',
                                      f'{where}: datagram left at {rt - t_enq:.4f}s, scheduled {sched_t - t_enq:.4f}s after enqueue')
                checked += 1
                ctx.probe('messages_checked')
            # loop-back: own message ids never reach handle_received_message
            for i, t, step, pm, remembered in sess.acted:
                # (only while the id is among the 200 most recent ids the node has seen or sent: that is its memory)
                if pm is not None and remembered and pm['mid'] in sess.own_mids[i]:
                    ctx.violation('C15.loopback', pm['kind'], f'node {i} acted on its own message {pm["mid"]} ({pm["kind"]}) '
                                                              f'that multicast looped back')
            loop = sum(1 for d in net.udp_log if d['dst'][0] == N.MULTICAST_GROUP)
            ctx.probe('loopback_datagrams', loop)
        ctx.nontrivial = checked >= 3
        for wsd in sess.nodes:
            try:
                wsd._networking_thread.schedule_stop()
            except Exception:  # noqa: BLE001
                pass


CHECK = C15()
