"""C17 - HTTP body framing and content coding are lossless and honour negotiation (world B; the part that meets
nondeterminism is the stream: bodies are written and read in pieces whose sizes the peer and the network decide)."""
from __future__ import annotations

import hashlib
import random

from dsim import httpmsg, net as N, peers, workload as W, worldb
from dsim.base import CheckBase, draw_sched_config

ACCEPT_VARIANTS = [None, '', 'gzip', 'x-lz4', 'gzip, x-lz4', 'x-lz4,gzip', 'gzip;q=0', 'gzip;q=0.0, x-lz4', 'x-lz4;q=0, gzip;q=0.5',
                   '*', '*;q=0', ' gzip ; q=0.5 , identity', 'br, zstd', 'identity', 'gzip;q=0, *;q=0.1', 'GZIP']
ATT_IP = '10.0.7.8'


def acceptable(coding, header):
    """RFC 7231 5.3.4: is `coding` acceptable for a peer that sent this Accept-Encoding header?"""
    if coding in (None, '', 'identity'):
        return True
    if header is None:
        return False  # (no header: any coding would be allowed by the RFC, but the statement demands a declaration)
    explicit = {}
    star = None
    for part in header.split(','):
        name, _, params = part.strip().partition(';')
        name = name.strip().lower()
        if not name:
            continue
        q = 1.0
        for prm in params.split(';'):
            k, _, v = prm.strip().partition('=')
            if k.strip().lower() == 'q':
                try:
                    q = float(v.strip())
                except ValueError:
                    q = 1.0
        if name == '*':
            star = q
        else:
            explicit[name] = q
    c = coding.lower()
    if c in explicit:
        return explicit[c] > 0
    if star is not None:
        return star > 0
    return False


class C17(CheckBase):
    id = 'C17'
    level = 'exploration'
    line_allow = ('sdc11073/httpserver/', 'sdc11073/pysoap/soapclient')
    rule = ('one evaluation = one simulated provider+consumer session with per-run framing knobs (provider chunk size and '
            'consumer request chunk size in {0,1,2,3,7,64,512,4096}, codings enabled per party in {none,gzip,lz4,both}, different '
            'on both sides, recv fragmentation) carrying 4-14 seeded transactions incl. large waveform / GetMdib payloads, plus '
            'scripted peers that send 6-16 requests and Subscribe with syntactically valid or sloppy Accept-Encoding headers; '
            'EVERY HTTP message recorded on the simulated wire (both directions) is parsed with a strict RFC 7230 parser, '
            'decoded, compared with the bytes the sending and receiving application layers saw, and its Content-Encoding is '
            'checked against the governing Accept-Encoding; non-trivial = >= 20 wire messages of which one is chunked or '
            'coded; distinct = event-log digest')
    components = {'real': ['HTTPReader', 'mk_chunks', 'CompressionHandler (gzip, lz4)', 'DispatchingRequestHandler', 'SoapClient',
                           'SoapClientAsync (all but session)', 'http.client', 'http.server', 'provider, consumer, subscription '
                           'managers (for the governing Subscribe)'],
                  'stub': ['scripted peers', 'sockets', 'aiohttp session (request side of the async client writes the bytes the '
                           'real SoapClientAsync built)']}
    assumptions = ['application-layer bytes are observed at MessageFactory.serialize_message / MessageReader.read_received_message',
                   'a message without Accept-Encoding declares nothing acceptable except identity']
    expected_probes = ['corrupt_coding_requests', 'wire_messages', 'chunked_messages', 'coded_messages', 'sloppy_headers', 'large_bodies',
                       'notifications_to_scripted', 'consumer_chunked_responses',
                       'codings_changed_at_runtime', 'incompressible_requests']
    max_steps = 14_000_000

    def budget(self, tier):
        return {'quick': {'runs': 64, 'wall': 85}, 'thorough': {'runs': 5000, 'wall': 2400}}[tier]

    def generate(self, rng, tier):
        sizes = [0, 1, 2, 3, 7, 64, 512, 4096]
        async_mgr = rng.random() < 0.5
        cfg = worldb.draw_config(rng, periodic=None, mdib='tns', max_subscription_duration=7200,
                                 chunk_size=rng.choice(sizes), consumer_chunk=rng.choice(sizes),
                                 provider_codings=rng.choice([[], ['gzip'], ['x-lz4'], ['gzip', 'x-lz4'], None]),
                                 consumer_codings=rng.choice([[], ['gzip'], ['x-lz4'], ['x-lz4', 'gzip'], None]),
                                 frag_max=rng.choice([None, 5, 100, 1500]), async_mgr=async_mgr)
        if cfg['chunk_size'] in (1, 2, 3):
            cfg['frag_max'] = rng.choice([None, 1500])  # keep the step count of byte-wise chunked megabyte bodies bounded
        g = W.Gen(rng, 'tns', validate=True)
        ops = []
        for _ in range(rng.randint(4, 14)):
            op = g.gen_op(kinds=['metric', 'rt', 'rt', 'context', 'descr', 'alert'])
            if op:
                ops.append(op)
        reqs = []
        for i in range(rng.randint(6, 16)):
            reqs.append({'id': i, 'kind': rng.choice(['GetMdib', 'GetMdState', 'GetMdDescription', 'wsdl']),
                         'accept': rng.choice(ACCEPT_VARIANTS), 'chunk': rng.choice([0, 0, 1, 5, 300]),
                         'coding': rng.choice([None, None, 'gzip', 'x-lz4']),
                         'corrupt': rng.choice([None, None, None, 'cut-trailer', 'cut-4', 'crc', 'unsupported', 'cut-half'])})
        subs = [{'accept': rng.choice(ACCEPT_VARIANTS)} for _ in range(rng.randint(1, 3))]
        big = rng.random() < 0.3 and cfg['chunk_size'] not in (1, 2, 3) and cfg['consumer_chunk'] not in (1, 2, 3)
        return {'sched': draw_sched_config(rng, line_ok=False), 'world': cfg, 'ops': ops, 'reqs': reqs, 'subs': subs,
                'big_samples': rng.choice([2000, 20000]) if big else 0,
                'consumer_server_chunk': rng.choice([0, 0, 1, 7, 512]),
                'incompressible_arg': rng.choice([0, rng.getrandbits(30), rng.getrandbits(30)]),
                'recode': rng.choice([None, None, [], ['gzip'], ['gzip'] if async_mgr else ['x-lz4'],
                                      ['gzip'] if async_mgr else ['gzip', 'x-lz4']])}

    # ------------------------------------------------------------------
    def body(self, ctx):
        plan = ctx.plan
        s = ctx.s
        produced, consumed = set(), set()
        from sdc11073.pysoap import msgfactory, msgreader
        orig_ser = msgfactory.MessageFactory.serialize_message
        orig_read = msgreader.MessageReader.read_received_message

        def ser(self_, *a, **kw):
            data = orig_ser(self_, *a, **kw)
            produced.add(hashlib.blake2b(data, digest_size=10).digest())
            return data

        def read(self_, xml_text, *a, **kw):
            if isinstance(xml_text, (bytes, bytearray)):
                consumed.add(hashlib.blake2b(bytes(xml_text), digest_size=10).digest())
            return orig_read(self_, xml_text, *a, **kw)

        msgfactory.MessageFactory.serialize_message = ser
        msgreader.MessageReader.read_received_message = read
        w = worldb.WorldB(ctx, plan['world'])
        w.start_provider(role_components=None)
        prov = w.provider
        if plan.get('consumer_server_chunk') and plan['world'].get('consumer_codings') is not None:
            # the consumer receives its notifications through an HTTP server the application shares with it and that
            # sends chunked responses (the answers to notifications have an empty body)
            from sdc11073 import loghelper
            from sdc11073.httpserver.httpserverimpl import HttpServerThreadBase
            ctx.probe('consumer_chunked_responses')
            with worldb.node(worldb.CONSUMER_IPS[0]):
                shared_c = HttpServerThreadBase(worldb.CONSUMER_IPS[0], None, list(plan['world']['consumer_codings']),
                                                loghelper.get_logger_adapter('sdc.sharedc'),
                                                chunk_size=plan['consumer_server_chunk'])
                shared_c.start()
                shared_c.started_evt.wait(5)
            w.cfg['consumer_start_args'] = {'shared_http_server': shared_c}
        c, cm = w.start_consumer(0, init_mdib=True)
        A = w.mdib.sdc_definitions.Actions
        paddr = (worldb.PROVIDER_IP, prov._http_server.server_port)
        # scripted subscribers with Accept-Encoding variants
        svc = prov.hosted_services.dpws_hosted_services['StateEvent']
        sub_path = f'/{prov.path_prefix}/{svc.path_element}'
        sub_eps = []
        for i, sp in enumerate(plan['subs']):
            ep = peers.Endpoint(f'10.0.1.{i + 1}', f'sub{i}')
            cl = peers.RawClient(f'10.0.1.{i + 1}', paddr)
            body = peers.mk_subscribe(f'http://{paddr[0]}:{paddr[1]}{sub_path}', ep.url(f'/n{i}'),
                                      [A.EpisodicMetricReport.value, A.Waveform.value, A.EpisodicContextReport.value,
                                       A.DescriptionModificationReport.value, A.EpisodicAlertReport.value], 3600,
                                      msg_id=f'urn:uuid:c17-{i}')
            hdr = {} if sp['accept'] is None else {'Accept-Encoding': sp['accept']}
            r = peers.SoapResponse(cl.post(sub_path, body, hdr))
            sub_eps.append((ep, sp['accept'], r.status == 200 and not r.is_fault))
            if sp['accept'] not in (None, 'gzip', 'x-lz4', 'gzip, x-lz4'):
                ctx.probe('sloppy_headers')
        # workload
        with worldb.node(worldb.PROVIDER_IP):
            if plan.get('big_samples'):
                from decimal import Decimal
                ctx.probe('large_bodies')
                with w.mdib.rt_sample_state_transaction() as mgr:
                    st = mgr.get_state('rtsa.ch0.vmd0')
                    if st.MetricValue is None:
                        st.mk_metric_value()
                    st.MetricValue.Samples = [Decimal(i % 977) / Decimal(7) for i in range(plan['big_samples'])]
            for op in plan['ops']:
                s.reseed('op', op['id'])
                try:
                    W.apply_op(w.mdib, op)
                except W.OpRejected:
                    pass
        w.settle(5.0)
        # a request of the real consumer whose body hardly compresses (an operation argument of random characters): a
        # coding may make it longer than the plain text
        if plan.get('incompressible_arg'):
            ctx.probe('incompressible_requests')
            r_ = random.Random(plan['incompressible_arg'])
            arg = ''.join(r_.choice('ABCDEFGHIJKLMNOPQRSTUVWXYZabcdefghijklmnopqrstuvwxyz0123456789+/') for _ in range(r_.choice([40, 700, 6000])))
            with worldb.node(worldb.CONSUMER_IPS[0]):
                try:
                    res = c.client('Set').set_string('SET_NTP_SRV_mds0', arg).result(timeout=6)
                    st_ = res.InvocationInfo.InvocationState.value
                except Exception as ex:  # noqa: BLE001
                    ctx.violation('C17.lossless', f'request-with-incompressible-body-failed:{type(ex).__name__}',
                                  f'SetString with an argument of {len(arg)} random characters failed: {ex!r}')
            w.settle(3.0)
        # the application changes the enabled codings of the running provider
        w.recode = None
        if plan.get('recode') is not None:
            ctx.probe('codings_changed_at_runtime')
            with worldb.node(worldb.PROVIDER_IP):
                prov.set_used_compression(*plan['recode'])
            w.recode = (s.now, list(plan['recode']))
            s.sleep(0.01)
        # scripted raw requests with Accept-Encoding variants
        cl = peers.RawClient(ATT_IP, paddr)
        get_path = f'/{prov.path_prefix}/{prov.hosted_services.dpws_hosted_services["Get"].path_element}'
        governing = {}
        for rq in plan['reqs']:
            hdr = {}
            if rq['accept'] is not None:
                hdr['Accept-Encoding'] = rq['accept']
                if rq['accept'] not in ('gzip', 'x-lz4', 'gzip, x-lz4'):
                    ctx.probe('sloppy_headers')
            try:
                if rq['kind'] == 'wsdl':
                    req = (f'GET {get_path}/?wsdl HTTP/1.1\r\nHost: x\r\n' + ''.join(f'{k}: {v}\r\n' for k, v in hdr.items()) + '\r\n').encode()
                    cl.send_raw(req)
                else:
                    from lxml import etree
                    from dsim.xsd import NS
                    el = etree.Element(etree.QName(NS['msg'], rq['kind']))
                    body = peers.envelope(getattr(A, rq['kind']).value, f'http://{paddr[0]}:{paddr[1]}{get_path}', [el],
                                          f'urn:uuid:c17-req-{rq["id"]}', extra_ns={'msg': NS['msg']})
                    if rq['coding'] == 'gzip':
                        import zlib
                        co = zlib.compressobj(wbits=16 + zlib.MAX_WBITS)
                        body = co.compress(body) + co.flush()
                        hdr['Content-Encoding'] = 'gzip'
                    elif rq['coding'] == 'x-lz4':
                        import lz4.frame
                        body = lz4.frame.compress(body)
                        hdr['Content-Encoding'] = 'x-lz4'
                    corrupt = rq.get('corrupt')
                    if corrupt and rq['kind'] != 'wsdl':
                        import zlib
                        co = zlib.compressobj(wbits=16 + zlib.MAX_WBITS)
                        raw_xml = body if 'Content-Encoding' not in hdr else None
                        if raw_xml is None:
                            corrupt = None
                        else:
                            gz = co.compress(raw_xml) + co.flush()
                            hdr['Content-Encoding'] = 'gzip'
                            if corrupt == 'cut-trailer':
                                body = gz[:-8]
                            elif corrupt == 'cut-4':
                                body = gz[:-4]
                            elif corrupt == 'cut-half':
                                body = gz[:len(gz) // 2]
                            elif corrupt == 'crc':
                                b2 = bytearray(gz)
                                b2[-6] ^= 0x55
                                body = bytes(b2)
                            else:
                                hdr['Content-Encoding'] = 'br'
                                body = raw_xml
                            ctx.probe('corrupt_coding_requests')
                    if rq['chunk']:
                        n = rq['chunk']
                        out = bytearray()
                        for i in range(0, len(body), n):
                            piece = body[i:i + n]
                            out += f'{len(piece):x}\r\n'.encode() + piece + b'\r\n'
                        out += b'0\r\n\r\n'
                        hdr['Transfer-Encoding'] = 'chunked'
                        resp = cl.post(get_path, bytes(out), hdr)
                    else:
                        resp = cl.post(get_path, body, hdr)
                    if corrupt and resp is not None and resp.status < 400:
                        ctx.violation('C17.reject', f'corrupt-coding-accepted:{corrupt}',
                                      f'{rq["kind"]} request whose body is in a corrupt / unsupported coding ({corrupt}) was '
                                      f'answered with HTTP {resp.status}')
            except (OSError, httpmsg.Incomplete, httpmsg.FramingError) as ex:
                ctx.violation('C17.framing', f'scripted-request-failed:{type(ex).__name__}', f'{rq}: {ex!r}')
        w.settle(3.0)
        msgfactory.MessageFactory.serialize_message = orig_ser
        msgreader.MessageReader.read_received_message = orig_read
        with s.no_preempt():
            self._judge(ctx, w, plan, produced, consumed, sub_eps, paddr, c)

    # ------------------------------------------------------------------
    def _judge(self, ctx, w, plan, produced, consumed, sub_eps, paddr, c):
        cfg = plan['world']
        from sdc11073.httpserver.compression import CompressionHandler
        all_codings = list(CompressionHandler.available_encodings)
        prov_codings = cfg['provider_codings'] if cfg['provider_codings'] is not None else all_codings
        cons_codings = cfg['consumer_codings'] if cfg['consumer_codings'] is not None else all_codings
        caddr = (worldb.CONSUMER_IPS[0], c._http_server.server_port)
        sub_accept = {ep.addr: acc for ep, acc, ok in sub_eps}
        # Accept-Encoding the real consumer sent in its Subscribe requests (governs notifications to it)
        consumer_sub_accept = None
        n_msgs = 0
        interesting = False
        for conn in w.net.conns:
            cdata = b''.join(x for _, _, x in conn.c2s.rec)
            sdata = b''.join(x for _, _, x in conn.s2c.rec)
            reqs, rest, err = httpmsg.split_stream(cdata, True)
            where = f'connection {conn.client_addr[0]} -> {conn.server_addr}'
            library_client = conn.client_addr[0] in (worldb.PROVIDER_IP, worldb.CONSUMER_IPS[0])
            library_server = conn.server_addr in (paddr, caddr)
            if err and library_client:
                ctx.violation('C17.framing', 'request-framing', f'{where}: request stream violates HTTP/1.1 framing: {err}')
            heads = [m.method == 'HEAD' for m in reqs]
            resps, rest2, err2 = httpmsg.split_stream(sdata, False, heads)
            if err2 and library_server:
                ctx.violation('C17.framing', 'response-framing', f'{where}: response stream violates HTTP/1.1 framing: {err2}')
            if rest2 and library_server and not conn.dead:
                ctx.violation('C17.framing', 'response-trailing-bytes', f'{where}: {len(rest2)} bytes after the last complete '
                                                                       f'response: {rest2[:80]!r}')
            for i, m in enumerate(reqs):
                n_msgs += 1
                ctx.probe('wire_messages')
                if m.chunked:
                    ctx.probe('chunked_messages')
                    interesting = True
                    if any(sz == 0 for sz in m.chunks):
                        ctx.violation('C17.framing', 'zero-chunk-inside-body', f'{where}: request with an empty chunk before the end')
                enc = (m.header('content-encoding') or '').lower() or None
                if enc:
                    ctx.probe('coded_messages')
                    interesting = True
                if library_client:
                    self._lossless(ctx, where, 'request', m, produced, consumed if library_server else None)
                    # request coding: must be enabled locally and accepted by the peer (from the Subscribe request)
                    if enc and conn.client_addr[0] == worldb.PROVIDER_IP:
                        if enc not in [x.lower() for x in prov_codings]:
                            ctx.violation('C17.negotiation', f'notification-coding-not-enabled:{enc}',
                                          f'{where}: provider sent Content-Encoding {enc} but has only {prov_codings} enabled')
                        acc = sub_accept.get(conn.server_addr, 'LIB')
                        if acc != 'LIB':
                            ctx.probe('notifications_to_scripted')
                            if not acceptable(enc, acc):
                                ctx.violation('C17.negotiation', f'notification-coding-not-accepted:{enc}',
                                              f'{where}: notification coded with {enc}, the subscriber\'s Subscribe request said '
                                              f'Accept-Encoding: {acc!r}')
                if i < len(resps):
                    r = resps[i]
                    n_msgs += 1
                    ctx.probe('wire_messages')
                    renc = (r.header('content-encoding') or '').lower() or None
                    if r.chunked:
                        ctx.probe('chunked_messages')
                        interesting = True
                    if renc:
                        ctx.probe('coded_messages')
                        interesting = True
                    if library_server:
                        self._lossless(ctx, where, 'response', r, produced, consumed if library_client else None, status=r.status)
                        local = prov_codings if conn.server_addr == paddr else cons_codings
                        if conn.server_addr == paddr and w.recode is not None and conn.c2s.rec and \
                                conn.c2s.rec[0][0] > w.recode[0]:
                            local = w.recode[1]  # connection opened after the application changed the setting
                        if renc and renc not in [x.lower() for x in local]:
                            ctx.violation('C17.negotiation', f'response-coding-not-enabled:{renc}',
                                          f'{where}: response coded with {renc} but the server has only {local} enabled')
                        acc = m.header('accept-encoding')
                        if renc and not acceptable(renc, acc):
                            ctx.violation('C17.negotiation', f'response-coding-not-accepted:{renc}',
                                          f'{where}: response coded with {renc} although the request said Accept-Encoding: {acc!r}')
        ctx.nontrivial = n_msgs >= 20 and interesting

    def _lossless(self, ctx, where, what, m, produced, consumed, status=None):
        try:
            body = httpmsg.decode_body(m)
        except Exception as ex:  # noqa: BLE001
            ctx.violation('C17.lossless', f'{what}-undecodable', f'{where}: {what} body cannot be decoded: {ex!r}')
            return
        if not body or not body.lstrip().startswith(b'<'):
            return
        if b'Envelope' not in body[:300]:
            return  # wsdl etc. are not produced by the message factory
        h = hashlib.blake2b(body, digest_size=10).digest()
        if h not in produced:
            ctx.violation('C17.lossless', f'{what}-differs-from-sent', f'{where}: decoded {what} body ({len(body)} bytes) is not '
                                                                       f'byte-identical with any message the application layer '
                                                                       f'serialised: {body[:120]!r}')
        if consumed is not None and h not in consumed and (status is None or status < 300):
            ctx.violation('C17.lossless', f'{what}-differs-from-received', f'{where}: decoded {what} body ({len(body)} bytes) was '
                                                                           f'not what the receiving application layer got')


CHECK = C17()
