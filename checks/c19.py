"""C19 - with TLS configured no endpoint is advertised or contacted in plaintext (world B under the configuration
matrix provider TLS {off,on} x consumer {none, optional, enforced} x HTTP server {own, shared} x alternative host name)."""
from __future__ import annotations

import pathlib
import re
import ssl

from dsim import net as N, workload as W, worldb
from dsim.base import CheckBase, draw_sched_config

URL_RE = re.compile(rb'(https?)://([A-Za-z0-9_.\-]+):(\d+)')


class C19(CheckBase):
    id = 'C19'
    level = 'exploration'
    line_allow = ('sdc11073/consumer/consumerimpl.py', 'sdc11073/provider/providerimpl.py', 'sdc11073/pysoap/soapclient')
    rule = ('one evaluation = one cell of the (fully enumerated over the batch) configuration matrix provider TLS {off,on} x '
            'consumer {no context, optional, enforced} x HTTP server {own, shared} x alternative host name {no, yes}, with a '
            'seeded history (start-up, metadata / WSDL retrieval, subscription, operation invocation, renew, provider '
            'transactions -> notifications, restart of the consumer, shutdown with SubscriptionEnd) under a seeded schedule; '
            'every URL a TLS-configured party puts on the wire and every connection it opens is inspected in the network '
            'history; plus the static check that contexts built from a CA file require the peer certificate; non-trivial = '
            'at least one party has TLS configured; distinct = (matrix cell, event-log digest)')
    components = {'real': ['SdcProvider', 'SdcConsumer', 'consumer subscription manager', 'subscription managers', 'dpws hosted '
                           'services (metadata, WSDL)', 'SoapClient / HTTPSConnection (http.client)', 'HttpServerThreadBase',
                           'certloader.mk_ssl_contexts (real ssl, repo test certificates)'],
                  'stub': ['TLS handshake and record layer (simulated contexts: wrap_socket marks the connection, mismatch raises '
                           'ssl.SSLError where the real library would)', 'sockets', 'aiohttp session']}
    assumptions = ['TLS itself is a model: only which connections are wrapped with which context and which URLs are advertised '
                   'is decided']
    expected_probes = ['provider_tls', 'consumer_enforced', 'consumer_optional', 'shared_server', 'alt_hostname', 'restart',
                       'fallback_to_plaintext_seen', 'enforced_refused_plaintext_peer', 'downgrade_attempt',
                       'downgrade_refused', 'tls_provider_on_plaintext_shared_server', 'plaintext_probe_requests',
                       'retry_refused', 'tls_probe_other_host_name', 'peer_supplied_http_address']
    max_steps = 6_000_000

    def budget(self, tier):
        return {'quick': {'runs': 192, 'wall': 85}, 'thorough': {'runs': 6000, 'wall': 1500}}[tier]

    def generate(self, rng, tier):
        cell = {'provider_tls': rng.random() < 0.6, 'consumer': rng.choice(['none', 'optional', 'enforced', 'enforced']),
                'provider_shared': rng.random() < 0.3, 'consumer_shared': rng.random() < 0.3,
                # the application hands the TLS-configured provider an HTTP server that itself has no TLS context
                'shared_plain': rng.random() < 0.4,
                'alt_host': rng.random() < 0.3, 'cyphers': rng.choice([None, 'HIGH:!aNULL'])}
        cfg = worldb.draw_config(rng, periodic=None, mdib='tns', max_subscription_duration=15, frag_max=None,
                                 provider_codings=None if rng.random() < 0.5 else ['gzip'])
        g = W.Gen(rng, 'tns', validate=True)
        ops = [op for op in (g.gen_op(kinds=['metric', 'alert', 'context']) for _ in range(rng.randint(1, 4))) if op]
        return {'sched': draw_sched_config(rng, line_ok=False), 'world': cfg, 'cell': cell, 'ops': ops,
                'restart': rng.random() < 0.4, 'provider_tls_after_restart': rng.choice([None, None, False]),
                'send_end': rng.random() < 0.8, 'downgrade': rng.random() < 0.5, 'tls_probe': rng.random() < 0.4}

    # ------------------------------------------------------------------
    def body(self, ctx):
        plan = ctx.plan
        cell = plan['cell']
        s = ctx.s
        from sdc11073.certloader import SSLContextContainer
        self._static(ctx, cell)
        w = worldb.WorldB(ctx, plan['world'])
        net = w.net
        net.hosts['provider.sim'] = worldb.PROVIDER_IP
        net.hosts['consumer.sim'] = worldb.CONSUMER_IPS[0]
        p_cont = c_cont = None
        if cell['provider_tls']:
            ctx.probe('provider_tls')
            p_cont = SSLContextContainer(N.SimTLSContext('prov-client'), N.SimTLSContext('prov-server', server_side=True))
        if cell['consumer'] != 'none':
            ctx.probe('consumer_' + cell['consumer'])
            c_cont = SSLContextContainer(N.SimTLSContext('cons-client'), N.SimTLSContext('cons-server', server_side=True))
        ctx.nontrivial = bool(p_cont or c_cont)
        kw = {}
        if cell['alt_host']:
            ctx.probe('alt_hostname')
            kw['alternative_hostname'] = 'provider.sim'
        from sdc11073.httpserver.httpserverimpl import HttpServerThreadBase
        from sdc11073 import loghelper
        shared_p = None
        if cell['provider_shared']:
            ctx.probe('shared_server')
            with worldb.node(worldb.PROVIDER_IP):
                plain = bool(cell.get('shared_plain')) and p_cont is not None
                if plain:
                    ctx.probe('tls_provider_on_plaintext_shared_server')
                shared_p = HttpServerThreadBase(worldb.PROVIDER_IP, p_cont.server_context if (p_cont and not plain) else None,
                                                ['gzip'], loghelper.get_logger_adapter('sdc.shared'))
                shared_p.start()
                shared_p.started_evt.wait(5)
        w.start_provider(ssl_container=p_cont, role_components='example', start=False, **kw)
        with worldb.node(worldb.PROVIDER_IP):
            w.provider.start_all(start_rtsample_loop=False, shared_http_server=shared_p)
            w.boot()
            from sdc11073.location import SdcLocation
            w.provider.set_location(SdcLocation(fac='f1', poc='p1', bed='b1'), publish_now=True)
        prov = w.provider
        if cell['provider_shared'] and cell.get('shared_plain') and p_cont is not None:
            # nobody can talk TLS to this provider; a plaintext peer reads what it advertises (device metadata, hosted
            # service metadata, SubscribeResponse) - every address in there has to be https all the same
            self._probe_plain(ctx, w, prov)
            finished, exc = w.stop_provider_guarded(plan['send_end'])
            s.sleep(0.2)
            with s.no_preempt():
                self._judge(ctx, w, cell, p_cont, None, None)
            return
        if p_cont is not None and plan.get('tls_probe'):
            # a TLS peer that addresses the provider by another name than the one it advertises (IP instead of the
            # alternative host name, or the other way round) reads its metadata and subscribes
            ctx.probe('tls_probe_other_host_name')
            other = f'{worldb.PROVIDER_IP}:{prov._http_server.server_port}' if cell['alt_host'] else \
                f'provider.sim:{prov._http_server.server_port}'
            self._probe_plain(ctx, w, prov, tls=N.SimTLSContext('probe-client'), host=other)
        consumer_failed = None
        c = None
        ckw = {}
        if cell['alt_host']:
            ckw['alternative_hostname'] = 'consumer.sim'
        shared_c = None
        try:
            if cell['consumer_shared']:
                with worldb.node(worldb.CONSUMER_IPS[0]):
                    use_tls = c_cont is not None and cell['provider_tls']
                    shared_c = HttpServerThreadBase(worldb.CONSUMER_IPS[0], c_cont.server_context if use_tls else None,
                                                    ['gzip'], loghelper.get_logger_adapter('sdc.sharedc'))
                    shared_c.start()
                    shared_c.started_evt.wait(5)
                w.cfg['consumer_start_args'] = {'shared_http_server': shared_c}
            c, cm = w.start_consumer(0, ssl_container=c_cont, init_mdib=True, force_ssl=(cell['consumer'] == 'enforced'), **ckw)
        except Exception as ex:  # noqa: BLE001
            consumer_failed = ex
        expect_fail = (cell['provider_tls'] and cell['consumer'] == 'none') or \
                      (not cell['provider_tls'] and cell['consumer'] == 'enforced')
        if consumer_failed is None and expect_fail:
            ctx.violation('C19.consumer', 'connected-despite-mismatch', f'{cell}: consumer start succeeded')
        if consumer_failed is not None and not expect_fail:
            raise consumer_failed
        if consumer_failed is not None and cell['consumer'] == 'enforced':
            ctx.probe('enforced_refused_plaintext_peer')
            # the application retries on the same consumer object: still TLS or nothing
            c_failed = getattr(w, 'last_consumer', None)
            if c_failed is not None and plan.get('downgrade'):
                for _ in range(2):
                    with worldb.node(worldb.CONSUMER_IPS[0]):
                        try:
                            c_failed.start_all(**(w.cfg.get('consumer_start_args') or {}))
                            ctx.violation('C19.consumer', 'connected-on-retry-after-failed-handshake',
                                          f'{cell}: a repeated start_all of the TLS-enforced consumer succeeded against a '
                                          f'plaintext peer')
                        except Exception:  # noqa: BLE001
                            ctx.probe('retry_refused')
                    w.settle(1.0)
        if c is not None:
            if cell['consumer'] == 'optional' and not cell['provider_tls']:
                ctx.probe('fallback_to_plaintext_seen')
            with worldb.node(worldb.PROVIDER_IP):
                for op in plan['ops']:
                    try:
                        W.apply_op(w.mdib, op)
                    except W.OpRejected:
                        pass
            w.settle(3.0)
            with worldb.node(worldb.CONSUMER_IPS[0]):
                try:
                    c.client('Set').set_string('SET_NTP_SRV_mds0', 'x.y').result(timeout=5)
                except Exception:  # noqa: BLE001
                    pass
                for sub in list(c.subscription_mgr.subscriptions.values()):
                    try:
                        sub.renew(30)
                    except Exception:  # noqa: BLE001
                        pass
                if plan.get('restart'):
                    ctx.probe('restart')
                    try:
                        c.restart()
                    except Exception:  # noqa: BLE001
                        pass
            w.settle(3.0)
            if cell['consumer'] == 'enforced' and cell['provider_tls']:
                # the peer names a location with scheme http on another host name (e.g. as subscription manager address):
                # whatever the consumer does with it, it does not open a plaintext connection
                ctx.probe('peer_supplied_http_address')
                with worldb.node(worldb.CONSUMER_IPS[0]):
                    other = 'provider.sim' if not cell['alt_host'] else worldb.PROVIDER_IP
                    try:
                        sc_ = c.get_soap_client(f'http://{other}:{prov._http_server.server_port}/{prov.path_prefix}/StateEvent')
                        sc_.connect()
                    except Exception:  # noqa: BLE001
                        pass
                w.settle(1.0)
            if plan.get('downgrade') and cell['consumer'] == 'enforced' and cell['provider_tls']:
                # downgrade attempt: the consumer stops, the provider's address is taken over by a party that answers the
                # ClientHello in plaintext (e.g. the provider restarted without TLS), the consumer starts again
                ctx.probe('downgrade_attempt')
                with worldb.node(worldb.CONSUMER_IPS[0]):
                    try:
                        c.stop_all(unsubscribe=True)
                    except Exception:  # noqa: BLE001
                        pass
                    w.settle(2.0)
                    saved = []
                    for lst in net.listeners.values():
                        if lst.addr[0] == worldb.PROVIDER_IP and lst.tls_context is not None:
                            saved.append((lst, lst.tls_context))
                            lst.tls_context = None
                    try:
                        c.start_all(**(w.cfg.get('consumer_start_args') or {}))
                        ctx.violation('C19.consumer', 'connected-after-downgrade',
                                      f'{cell}: start_all of the TLS-enforced consumer succeeded against a plaintext peer')
                    except Exception:  # noqa: BLE001
                        ctx.probe('downgrade_refused')
                    w.settle(2.0)
                    for lst, tc in saved:
                        lst.tls_context = tc
                    try:
                        c.stop_all(unsubscribe=False)
                    except Exception:  # noqa: BLE001
                        pass
        finished, exc = w.stop_provider_guarded(plan['send_end'])
        if not finished:
            # a shutdown that hangs is a liveness defect, but not a statement of C19 (C08 owns that oracle): do not
            # raise it here, only count it
            ctx.probe('stop_all_did_not_return')
        s.sleep(0.5)
        with s.no_preempt():
            self._judge(ctx, w, cell, p_cont, c_cont, c)

    def _probe_plain(self, ctx, w, prov, tls=None, host=None):
        from lxml import etree
        from dsim import peers
        from dsim.xsd import NS
        paddr = (worldb.PROVIDER_IP, prov._http_server.server_port)
        cl = peers.RawClient('10.0.0.7', paddr, tls=tls)
        hdr = {'Host': host} if host else None
        base = f'/{prov.path_prefix}'
        reqs = [(base, 'http://schemas.xmlsoap.org/ws/2004/09/transfer/Get', [])]
        for svc in prov.hosted_services.dpws_hosted_services.values():
            el = etree.Element(etree.QName('http://schemas.xmlsoap.org/ws/2004/09/mex', 'GetMetadata'))
            reqs.append((f'{base}/{svc.path_element}', 'http://schemas.xmlsoap.org/ws/2004/09/mex/GetMetadata/Request', [el]))
        n = 0
        for path, action, body in reqs:
            n += 1
            try:
                cl.post(path, peers.envelope(action, f'https://{paddr[0]}:{paddr[1]}{path}', body, f'urn:uuid:c19-probe-{n}'), hdr)
                ctx.probe('plaintext_probe_requests')
            except (OSError, Exception):  # noqa: BLE001
                pass
        ep = peers.Endpoint('10.0.0.7', 'probe')
        A = w.mdib.sdc_definitions.Actions
        svc = prov.hosted_services.dpws_hosted_services['StateEvent']
        path = f'{base}/{svc.path_element}'
        try:
            cl.post(path, peers.mk_subscribe(f'https://{paddr[0]}:{paddr[1]}{path}', ep.url('/n0'),
                                             [A.EpisodicMetricReport.value], expires=60, msg_id='urn:uuid:c19-probe-sub'), hdr)
            ctx.probe('plaintext_probe_requests')
        except (OSError, Exception):  # noqa: BLE001
            pass
        w.settle(2.0)

    def _static(self, ctx, cell):
        from sdc11073 import certloader
        d = pathlib.Path('/repo/tests/certificates')
        cont = certloader.mk_ssl_contexts(d / 'test_private_key.pem', d / 'test_certificate.pem', d / 'test_certificate.pem',
                                          cell.get('cyphers'), 'password')
        for name, c in (('client', cont.client_context), ('server', cont.server_context)):
            if c.verify_mode != ssl.CERT_REQUIRED:
                ctx.violation('C19.certreq', f'{name}:cyphers={"yes" if cell.get("cyphers") else "no"}',
                              f'{name} context built from a CA file has verify_mode {c.verify_mode!r}')
        cont2 = certloader.mk_ssl_contexts(d / 'test_private_key.pem', d / 'test_certificate.pem', None, cell.get('cyphers'), 'password')
        if cont2.client_context is cont2.server_context:
            ctx.violation('C19.certreq', 'same-context', 'client and server context are the same object')

    def _judge(self, ctx, w, cell, p_cont, c_cont, c):
        net = w.net
        provider_names = {worldb.PROVIDER_IP, 'provider.sim'}
        consumer_names = {worldb.CONSUMER_IPS[0], 'consumer.sim'}
        for conn in net.conns:
            src = conn.client_addr[0]
            cdata = b''.join(x for _, _, x in conn.c2s.rec)
            sdata = b''.join(x for _, _, x in conn.s2c.rec)
            # connections opened by a TLS-configured party
            if p_cont is not None and src == worldb.PROVIDER_IP:
                if conn.client_tls is not p_cont.client_context:
                    ctx.violation('C19.provider', 'plaintext-connection', f'provider (TLS configured) opened a connection to '
                                                                          f'{conn.server_addr} without its TLS client context; first '
                                                                          f'bytes {cdata[:60]!r}')
            if c_cont is not None and cell['consumer'] == 'enforced' and src == worldb.CONSUMER_IPS[0]:
                if conn.client_tls is not c_cont.client_context:
                    ctx.violation('C19.consumer', 'plaintext-connection', f'consumer (TLS enforced) opened a connection to '
                                                                          f'{conn.server_addr} without TLS; first bytes {cdata[:60]!r}')
                if not conn.tls_established and (cdata.startswith(b'POST') or cdata.startswith(b'GET')):
                    ctx.violation('C19.consumer', 'plaintext-request', f'consumer (TLS enforced) sent a plaintext request to '
                                                                       f'{conn.server_addr}: {cdata[:80]!r}')
            # URLs advertised by a TLS-configured party: everything the provider writes / the enforced consumer writes
            for data, writer in ((cdata, src), (sdata, conn.server_addr[0])):
                if writer == worldb.PROVIDER_IP and p_cont is not None:
                    for m in URL_RE.finditer(data):
                        if m.group(2).decode() in provider_names and m.group(1) != b'https':
                            ctx.violation('C19.provider', 'http-url-advertised', f'provider (TLS configured) put {m.group(0).decode()} '
                                                                                 f'on the wire: ...{data[max(0, m.start() - 80):m.end() + 20]!r}')
                if writer == worldb.CONSUMER_IPS[0] and c_cont is not None and cell['consumer'] == 'enforced':
                    for m in URL_RE.finditer(data):
                        if m.group(2).decode() in consumer_names and m.group(1) != b'https':
                            ctx.violation('C19.consumer', 'http-url-advertised', f'consumer (TLS enforced) put {m.group(0).decode()} '
                                                                                 f'on the wire: ...{data[max(0, m.start() - 80):m.end() + 20]!r}')
        if p_cont is not None:
            for epr, types, scopes, xaddrs in w.wsd.published:
                for x in xaddrs:
                    if not x.startswith('https://'):
                        ctx.violation('C19.provider', 'http-xaddr-published', f'provider (TLS configured) published XAddr {x}')
            lst = [l for l in net.listeners.values()]
        # listeners of TLS parties
        for kind, name, addr, *rest in [t for t in net.tls_log if t[0] == 'listen']:
            pass
        if c is not None and c_cont is not None and cell['consumer'] == 'enforced' and c._http_server is not None:
            sock = getattr(c._http_server.httpd, 'socket', None)
            if sock is not None and getattr(sock, 'tls_context', None) is None and not cell['consumer_shared']:
                ctx.violation('C19.consumer', 'plaintext-notification-listener', 'consumer (TLS enforced) listens for notifications '
                                                                                 'without TLS')
        import hashlib
        import json
        ctx.stats['distinct_key'] = ctx.s.digest() + hashlib.blake2b(json.dumps(cell, sort_keys=True).encode(), digest_size=4).hexdigest()


CHECK = C19()
