"""C20 - query services return exactly the selected states and texts.

No fault or schedule dimension of its own (the concurrent case is C07): what the simulation contributes is the MDIB /
text-store *history* the queries run against, produced by seeded transactions through the real stack; claimed at that
strength only."""
from __future__ import annotations

from collections import Counter

from checks.c07 import select_context_states, select_states
from dsim import canon, workload as W, worldb
from dsim.base import CheckBase, draw_sched_config

WIDTHS = ['xs', 's', 'm', 'l', 'xl', 'xxl']
W2I = {w: i for i, w in enumerate(WIDTHS)}


class C20(CheckBase):
    id = 'C20'
    level = 'exploration'
    rule = ('one evaluation = one simulated provider+consumer session: 4-16 seeded provider transactions (incl. descriptor '
            'create/delete and context changes) and localized-text additions (any version order) interleaved with 8-30 '
            'GetMdState / GetContextStates / GetLocalizedText / GetSupportedLanguages queries (existing, context-state, MDS, '
            'unknown and duplicated handles; all filter combinations) on a quiescent provider, each answer compared with a '
            'reference selection over the provider history; non-trivial = >= 3 queries with a non-empty handle / filter list; '
            'distinct = operation-sequence digest')
    components = {'real': ['SdcProvider', 'GetService', 'ContextService', 'LocalizationService + LocalizationStorage',
                           'SdcConsumer service clients', 'ProviderMdib transactions', 'HTTP stacks'],
                  'stub': ['sockets', 'aiohttp session', 'WS-Discovery stub']}
    assumptions = ['quiescent provider between queries (no fault / schedule dimension: see C07 for the concurrent case)',
                   'for text-width / number-of-lines constraints only "every returned text satisfies every constraint" is '
                   'demanded (the statement does not fix which of several fitting texts is chosen)']
    expected_probes = ['GetMdState', 'GetContextStates', 'GetLocalizedText', 'GetSupportedLanguages', 'duplicated_handles',
                       'mds_handles', 'unknown_handles']
    max_steps = 6_000_000

    def budget(self, tier):
        return {'quick': {'runs': 200, 'wall': 80}, 'thorough': {'runs': 8000, 'wall': 1500}}[tier]

    def generate(self, rng, tier):
        cfg = worldb.draw_config(rng, periodic=None, mdib=rng.choice(['tns', 'two', 'two']), max_subscription_duration=7200,
                                 frag_max=None)
        g = W.Gen(rng, cfg['mdib'], validate=True)
        steps = []
        refs = [f'ref{i}' for i in range(6)]
        langs = ['en', 'en-US', 'de', 'fr']
        nq = 0
        for i in range(rng.randint(16, 50 if tier == 'thorough' else 30)):
            k = rng.choice(['tx', 'mdstate', 'mdstate', 'ctx', 'ctx', 'addtext', 'text', 'text', 'langs'])
            st = {'id': i, 'k': k}
            if k == 'tx':
                op = g.gen_op(kinds=['state'] * 2 + ['context'] * 3 + ['descr'] * 3)
                if op is None:
                    continue
                st['op'] = op
            elif k in ('mdstate', 'ctx'):
                m = g.m
                descr = sorted(d.Handle for d in m.descriptions.objects)
                cst = sorted(s_.Handle for s_ in m.context_states.objects)
                cdescr = sorted(d.Handle for d in m.descriptions.objects if d.is_context_descriptor)
                mds = sorted(d.Handle for d in m.descriptions.objects if d.parent_handle is None)
                pool = (descr + cst * 2 + mds + ['unknown.h']) if k == 'mdstate' else (cst * 3 + cdescr * 3 + mds * 2 + rng.sample(descr, min(8, len(descr))) + ['unknown.h'])
                hs = None
                if rng.random() < 0.8:
                    hs = [rng.choice(pool) for _ in range(rng.randint(1, 5))]
                    if rng.random() < 0.3:
                        hs.append(hs[0])
                st['handles'] = hs
                nq += 1
            elif k == 'addtext':
                st['texts'] = [{'ref': rng.choice(refs), 'lang': rng.choice(langs), 'version': rng.randint(0, 4),
                                'width': rng.choice(WIDTHS + [None]),
                                'text': '\n'.join(['line'] * rng.randint(1, 4))} for _ in range(rng.randint(1, 5))]
            elif k == 'text':
                st['refs'] = rng.choice([None, None, [rng.choice(refs + ['ref.unknown']) for _ in range(rng.randint(1, 3))]])
                st['version'] = rng.choice([None, None, 0, 0, 1, 2, 3, 4, 9])
                st['langs'] = rng.choice([None, None, [rng.choice(langs + ['xx'])], langs[:2]])
                st['widths'] = rng.choice([None, None, None, [rng.choice(WIDTHS)], ['s', 'xl']])
                st['lines'] = rng.choice([None, None, None, [rng.randint(1, 4)], [1, 3]])
                nq += 1
            steps.append(st)
        return {'sched': draw_sched_config(rng, line_ok=False), 'world': cfg, 'steps': steps}

    def body(self, ctx):
        plan = ctx.plan
        s = ctx.s
        w = worldb.WorldB(ctx, dict(plan['world']))
        w.start_provider(role_components=None)
        A = w.mdib.sdc_definitions.Actions
        w.cfg['consumer_start_args'] = {'not_subscribed_actions': [a.value for a in A if 'Report' in a.name or a.name == 'Waveform']}
        c, _ = w.start_consumer(0, init_mdib=False)
        pmt = w.mdib.data_model.pm_types
        store = w.provider.localization_storage
        model_texts = []
        nontriv = 0
        for st in plan['steps']:
            k = st['k']
            if k == 'tx':
                with worldb.node(worldb.PROVIDER_IP):
                    try:
                        W.apply_op(w.mdib, st['op'])
                    except W.OpRejected:
                        pass
                continue
            if k == 'addtext':
                objs = []
                for t in st['texts']:
                    lt = pmt.LocalizedText(t['text'], lang=t['lang'], ref=t['ref'], version=t['version'],
                                           text_width=pmt.LocalizedTextWidth(t['width']) if t['width'] else None)
                    objs.append(lt)
                    model_texts.append(t)
                store.add(*objs)
                continue
            with s.no_preempt():
                ref = canon.snap(w.mdib)
            with worldb.node(worldb.CONSUMER_IPS[0]):
                if k == 'mdstate':
                    ctx.probe('GetMdState')
                    r = c.client('Get').get_md_state(st['handles'])
                    got = [('context' if x.is_context_state else 'states', x.Handle if x.is_context_state else x.DescriptorHandle)
                           for x in r.result.MdState.State]
                    exp = select_states(ref, st['handles'], True)
                    self._cmp(ctx, 'C20.states', 'GetMdState', st['handles'], got, exp, ref)
                elif k == 'ctx':
                    ctx.probe('GetContextStates')
                    r = c.client('Context').get_context_states(st['handles'])
                    got = [('context', x.Handle) for x in r.result.ContextState]
                    exp = select_context_states(ref, st['handles'])
                    self._cmp(ctx, 'C20.context', 'GetContextStates', st['handles'], got, exp, ref)
                elif k == 'text':
                    ctx.probe('GetLocalizedText')
                    widths = [pmt.LocalizedTextWidth(x) for x in st['widths']] if st['widths'] else None
                    r = c.client('LocalizationService').get_localized_texts(st['refs'], st['version'], st['langs'], widths, [str(n) for n in st['lines']] if st['lines'] else None)
                    self._check_texts(ctx, st, list(r.result.Text), model_texts)
                elif k == 'langs':
                    ctx.probe('GetSupportedLanguages')
                    r = c.client('LocalizationService').get_supported_languages()
                    got = sorted(r.result.Lang)
                    exp = sorted({t['lang'] for t in model_texts})
                    if got != exp:
                        ctx.violation('C20.languages', 'set', f'GetSupportedLanguages -> {got}, stored languages {exp}')
            if st.get('handles') or st.get('refs') or st.get('langs') or st.get('widths') or st.get('lines'):
                nontriv += 1
            hs = st.get('handles') or []
            if len(set(hs)) < len(hs):
                ctx.probe('duplicated_handles')
            if any(h in ref['descriptors'] and ref['descriptors'][h].get('@parent') is None for h in hs):
                ctx.probe('mds_handles')
            if 'unknown.h' in hs:
                ctx.probe('unknown_handles')
        ctx.nontrivial = nontriv >= 3
        import hashlib
        import json
        ctx.stats['distinct_key'] = hashlib.blake2b(json.dumps(plan['steps'], sort_keys=True).encode(), digest_size=10).hexdigest()

    def _cmp(self, ctx, clause, what, handles, got, exp, ref):
        cnt = Counter(got)
        dup = [k for k, n in cnt.items() if n > 1]
        if dup:
            ctx.violation(clause, f'{what}:returned-twice', f'{what}({handles}) returned {dup[:3]} more than once')
        if set(got) != exp:
            extra = sorted(set(got) - exp)[:4]
            missing = sorted(exp - set(got))[:4]
            kinds = []
            for h in handles or []:
                if h in ref['context']:
                    kinds.append('ctxstate')
                elif h in ref['descriptors']:
                    kinds.append('mds' if ref['descriptors'][h].get('@parent') is None else 'descr')
                else:
                    kinds.append('unknown')
            ctx.violation(clause, f'{what}:{"extra" if extra else "missing"}:{"+".join(sorted(set(kinds))) or "all"}',
                          f'{what}({handles}) returned {extra} extra and lacks {missing}')

    def _check_texts(self, ctx, st, got, model):
        latest = max((t['version'] for t in model), default=None)
        want_version = st['version'] if st['version'] is not None else latest
        for t in got:
            lines = len((t.text or '').split('\n'))
            width = t.TextWidth.value if t.TextWidth is not None else None
            bad = []
            if st['refs'] and t.Ref not in st['refs']:
                bad.append(f'ref {t.Ref} not requested')
            if t.Version != want_version:
                bad.append(f'version {t.Version}, expected {want_version}')
            if st['langs'] and t.Lang not in st['langs']:
                bad.append(f'lang {t.Lang} not requested')
            if st['widths'] and not any(width is not None and W2I[width] <= W2I[x] for x in st['widths']):
                bad.append(f'width {width} exceeds every requested width {st["widths"]}')
            if st['lines'] and not any(lines <= n for n in st['lines']):
                bad.append(f'{lines} lines exceed every requested count {st["lines"]}')
            if bad:
                ctx.violation('C20.texts', bad[0].split(' ')[0], f'GetLocalizedText({ {k: st[k] for k in ("refs", "version", "langs", "widths", "lines")} }) '
                                                                  f'returned ({t.Ref},{t.Lang},v{t.Version},{width},{lines} lines): {bad}')
        if not st['widths'] and not st['lines']:
            exp = sorted((t['ref'], t['lang'], t['version'], t['width'] or '', t['text']) for t in model
                         if t['version'] == want_version and (not st['refs'] or t['ref'] in st['refs'])
                         and (not st['langs'] or t['lang'] in st['langs']))
            g = sorted((t.Ref, t.Lang, t.Version, t.TextWidth.value if t.TextWidth is not None else '', t.text) for t in got)
            if set(g) != set(exp):  # (the statement does not demand 'at most once' for texts)
                ctx.violation('C20.texts', 'set-without-size-constraints',
                              f'GetLocalizedText(refs={st["refs"]}, version={st["version"]}, langs={st["langs"]}) returned '
                              f'{len(g)} texts, expected {len(exp)} (latest version {latest}): got {g[:4]} expected {exp[:4]}')


CHECK = C20()
