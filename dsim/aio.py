"""asyncio under the simulator: an event loop whose selector blocks in the simulated scheduler and whose clock is
virtual, and a stand-in for aiohttp.ClientSession that writes the request bytes onto a simulated tcp socket.

The repo's SoapClientAsync.async_post_message_to (compression, chunking, header construction, fault mapping)
stays real; only `_mk_http_connection` is overridden (component injection, no repo change).
"""
from __future__ import annotations

import asyncio
import http.client
import selectors
import zlib

from . import net as N
from . import sched as S


class _LoopSelector(selectors._BaseSelectorImpl):
    def __init__(self):
        super().__init__()
        self.label = 'aiosel'
        self.wakeups = 0

    def select(self, timeout=None):
        s = S.SCHED
        if s is None or s.me() is None:
            return []
        if self.wakeups == 0:
            if timeout is None or timeout > 0:
                s.block(self, timeout, 'aioselect', self.label)
            else:
                s.yield_point('aiopoll')
        self.wakeups = 0
        return []


class SimEventLoop(asyncio.SelectorEventLoop):
    def __init__(self):
        self._simsel = _LoopSelector()
        super().__init__(self._simsel)

    def _write_to_self(self):
        self._simsel.wakeups += 1
        s = S.SCHED
        if s is not None and s.me() is not None:
            s.wake(self._simsel)

    def time(self):
        return S.sim_monotonic()


class _Resp:
    def __init__(self, status, reason, body, headers):
        self.status = status
        self.reason = reason
        self._body = body
        self.headers = headers

    async def text(self):
        return self._body.decode('utf-8')

    async def read(self):
        return self._body


def _connector_error(netloc, ex):
    import aiohttp.client_exceptions as ace
    from aiohttp.client_reqrep import ConnectionKey
    host, _, port = netloc.partition(':')
    try:
        key = ConnectionKey(host, int(port or 80), False, None, None, None, None)
    except TypeError:
        key = None
    oserr = ex if isinstance(ex, OSError) and ex.errno is not None else OSError(111, str(ex))
    return ace.ClientConnectorError(key, oserr)


class FakeSession:
    """what SoapClientAsync uses of aiohttp.ClientSession: post() as async context manager, close()"""

    def __init__(self, netloc, ssl_context, timeout):
        self.netloc = netloc
        self.ssl_context = ssl_context
        self.timeout = timeout
        self.sock = None
        self.closed = False

    def post(self, path, data=None, headers=None):
        return _Post(self, path, data, headers)

    async def close(self):
        self.closed = True
        if self.sock is not None:
            self.sock.close()
            self.sock = None

    def _drop(self):
        if self.sock is not None:
            try:
                self.sock.close()
            except OSError:
                pass
            self.sock = None


class _Post:
    def __init__(self, sess, path, data, headers):
        self.sess, self.path, self.data, self.headers = sess, path, data, headers

    async def __aenter__(self):
        import aiohttp.client_exceptions as ace
        sess = self.sess
        host, _, port = sess.netloc.partition(':')
        if sess.sock is not None and (sess.sock.conn.dead or sess.sock._rx.closed or sess.sock._tx.reader_gone):
            sess._drop()  # aiohttp would not reuse a connection the server has closed
        if sess.sock is None:
            try:
                sock = N.create_connection((host, int(port)), timeout=sess.timeout)
                if sess.ssl_context is not None:
                    sock = sess.ssl_context.wrap_socket(sock, server_hostname=host)
            except TimeoutError:
                raise
            except OSError as ex:
                raise _connector_error(sess.netloc, ex) from ex
            sess.sock = sock
        sock = sess.sock
        path = self.path if self.path.startswith('/') else '/' + self.path
        req = [f'POST {path} HTTP/1.1', f'Host: {sess.netloc}'] + [f'{k}: {v}' for k, v in self.headers.items()]
        data = self.data if isinstance(self.data, (bytes, bytearray)) else bytes(self.data)
        try:
            sock.sendall(('\r\n'.join(req) + '\r\n\r\n').encode('latin-1') + data)
        except OSError as ex:
            sess._drop()
            raise ace.ClientOSError(ex.errno, str(ex)) from ex
        # let the other coroutines of the same gather() send their requests before any response is awaited
        await asyncio.sleep(0)
        try:
            r = http.client.HTTPResponse(sock, method='POST')
            r.begin()
            body = r.read()
        except TimeoutError:
            sess._drop()
            raise
        except (http.client.HTTPException, OSError) as ex:
            sess._drop()
            raise ace.ServerDisconnectedError(str(ex)) from ex
        enc = (r.getheader('content-encoding') or '').lower()
        if body and enc == 'gzip':
            body = zlib.decompress(body, 16 + zlib.MAX_WBITS)
        elif body and enc == 'deflate':
            body = zlib.decompress(body)
        if r.will_close:
            sess._drop()
        return _Resp(r.status, r.reason, body, dict(r.getheaders()))

    async def __aexit__(self, *a):
        return False


_sim_client_cls = None


def sim_soap_client_async_class():
    """subclass of the repo's SoapClientAsync that talks through the simulated network"""
    global _sim_client_cls
    if _sim_client_cls is None:
        from sdc11073.pysoap import soapclient_async

        class SimSoapClientAsync(soapclient_async.SoapClientAsync):
            async def _mk_http_connection(self):
                return FakeSession(self._netloc, self._ssl_context, self._socket_timeout)

        _sim_client_cls = SimSoapClientAsync
    return _sim_client_cls


_installed = False


def install():
    global _installed
    if _installed:
        return
    _installed = True
    asyncio.new_event_loop = SimEventLoop
