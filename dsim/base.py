"""Common base for checks: scheduler configuration drawn per run (swarm), run context, violation recording."""
from __future__ import annotations

import os
import random
import traceback

from . import net as N
from . import patches
from . import sched as S
from .runner import load_known_findings, match_known


class StopRun(BaseException):
    """raised by ctx.violation() to end the run at the first (unknown) violation"""


class Ctx:
    def __init__(self, check_id, plan, sched):
        self.check_id = check_id
        self.plan = plan
        self.s = sched
        self.violations = []
        self.known = []
        self.probes = {}
        self.stats = {}
        self.nontrivial = False
        self._known_list = load_known_findings()

    def probe(self, name, n=1):
        self.probes[name] = self.probes.get(name, 0) + n

    def violation(self, clause, sig, detail, stop=True, cont=False):
        """record a violation; returns True if it is a listed known finding (the run may continue),
        otherwise ends the run (StopRun) unless stop=False"""
        if match_known(self._known_list, self.check_id, clause, sig) is not None:
            if len(self.known) < 50:
                self.known.append({'clause': clause, 'sig': sig})
            if cont:
                return True
            # the state of the system under test is no longer trustworthy after a (known) defect fired:
            # end this run quietly so that consequences of it are not reported as something new
            raise StopRun
        self.violations.append({'clause': clause, 'sig': sig, 'detail': detail,
                                't': round(self.s.now, 6), 'step': self.s.steps})
        self.s.note(f'VIOLATION {clause} {sig}')
        if stop:
            raise StopRun
        return False


def draw_sched_config(rng: random.Random, line_ok=True, stall_ok=False):
    """swarm: scheduling strategy and pre-emption rates differ per run. stall_ok: the check's oracles do not depend on
    how fast a thread proceeds, so threads may be stalled for 1-100 virtual ms at scheduling points"""
    strategy = rng.choice(['random', 'random', 'random', 'pct'])
    cfg = {'seed': rng.getrandbits(48), 'strategy': strategy,
           'p_switch': rng.choice([0.02, 0.1, 0.3, 0.6]),
           'pct_depth': rng.choice([1, 2, 3]),
           'pct_horizon': rng.choice([500, 3000, 20000]),
           'line_p': rng.choice([0.0, 0.0, 0.002, 0.02]) if line_ok else 0.0}
    if stall_ok:
        cfg['p_stall'] = rng.choice([0.0, 0.0, 0.0005, 0.003])
    return cfg


class CheckBase:
    id = 'C00'
    level = 'exploration'
    rule = ''
    components = {}
    assumptions = []
    expected_probes = []
    line_allow: tuple = ()
    max_steps = 2_000_000
    max_virtual = 3600.0

    def budget(self, tier):
        return {'runs': 100, 'wall': 60}

    def generate(self, rng, tier):
        raise NotImplementedError

    def body(self, ctx: Ctx):
        raise NotImplementedError

    def execute(self, plan, on_abort=None):
        cfg = plan['sched']
        s = S.Scheduler(cfg['seed'], strategy=cfg.get('strategy', 'random'), p_switch=cfg.get('p_switch', 0.2),
                        line_p=cfg.get('line_p', 0.0), pct_depth=cfg.get('pct_depth', 2),
                        pct_horizon=cfg.get('pct_horizon', 3000), max_steps=self.max_steps,
                        max_virtual=self.max_virtual, log_path=os.environ.get('SIMLOG'))
        s.on_abort = on_abort
        s.p_stall = cfg.get('p_stall', 0.0)
        patches.begin_run(cfg['seed'])
        net = N.reset(cfg['seed'] ^ 0x77)
        ctx = Ctx(self.id, plan, s)
        ctx.net = net
        s.line_hot = {k: (v[0], tuple(v[1])) for k, v in (cfg.get('line_hot') or {}).items()}
        if (cfg.get('line_p', 0) > 0 or s.line_hot) and self.line_allow:
            S.enable_line_preemption(self.line_allow)
        err = None

        def body(_s):
            try:
                self.body(ctx)
            except StopRun:
                pass

        try:
            S.run(s, body)
        except S.HarnessError:
            raise
        except BaseException:  # noqa: BLE001
            err = traceback.format_exc()
        finally:
            S.disable_line_preemption()
        if err is not None:
            return {'harness_error': 'EXCEPTION', 'detail': err[-6000:], 'ring': s.ring[-40:]}
        fc = dict(net.fault_counts)
        if s.stalls:
            fc['thread_stall'] = s.stalls
        nontrivial = ctx.nontrivial or s.preemptions > 0 or any(fc.values())
        return {'violations': ctx.violations, 'known': ctx.known, 'digest': s.digest(), 'steps': s.steps,
                'virtual_s': round(s.now, 6), 'fault_counts': fc, 'probes': ctx.probes,
                'strategy': f"{cfg.get('strategy')}/p{cfg.get('p_switch')}/l{cfg.get('line_p')}",
                'nontrivial': bool(nontrivial), 'preemptions': s.preemptions, 'line_yields': s.line_yields,
                'escaped': s.escaped[:5], 'stats': ctx.stats,
                'distinct_key': ctx.stats.get('distinct_key') or s.digest()}
