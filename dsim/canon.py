"""Canonical, library-independent snapshots of containers and whole MDIBs (DESIGN.md 5.1) and the index audit (5.4).

`canon(obj)` walks the declarative `_props` metadata; values are read through the property (so an absent optional
attribute yields its implied value), timestamps are compared at 1 ms wire resolution, Decimals numerically,
extension content as C14N text, and the self-updating ClockState.DateAndTime is excluded.
"""
from __future__ import annotations

import enum
from decimal import Decimal

from lxml import etree


def _c14n(node):
    try:
        return etree.tostring(node, method='c14n', exclusive=True).decode()
    except Exception:  # noqa: BLE001
        return etree.tostring(node).decode()


def _dec(v: Decimal):
    if v.is_nan():
        return 'D:NaN'
    if v == 0:
        return 'D:0'
    return 'D:' + format(v.normalize(), 'f')


def _prop_kind(prop):
    from sdc11073.xml_types import xml_structure as xs
    from sdc11073.xml_types.dataconverters import TimestampConverter
    if isinstance(prop, xs.CurrentTimestampAttributeProperty):
        return 'skip'
    if isinstance(prop, xs.ExtensionNodeProperty):
        return 'ext'
    if getattr(prop, '_converter', None) is TimestampConverter:
        return 'ts'
    return 'plain'


_props_cache = {}


def _props_of(obj):
    cls = obj.__class__
    r = _props_cache.get(cls)
    if r is None:
        r = [(name, prop, _prop_kind(prop)) for name, prop in obj.sorted_container_properties()]
        _props_cache[cls] = r
    return r


def canon_value(v, kind='plain'):
    if v is None or isinstance(v, (bool, int, str)):
        if isinstance(v, enum.Enum):
            return v.value
        return v
    if isinstance(v, float):
        if kind == 'ts':
            return round(v * 1000)
        return round(v, 6)
    if isinstance(v, Decimal):
        return _dec(v)
    if isinstance(v, enum.Enum):
        return v.value
    if isinstance(v, etree.QName):
        return v.text
    if isinstance(v, (list, tuple)):
        return [canon_value(x, kind) for x in v]
    if isinstance(v, etree._Element):
        return _c14n(v)
    if hasattr(v, 'sorted_container_properties'):
        c = canon(v)
        if all(k.startswith('@') for k in c):
            return None  # a sub element without any content is equivalent to an absent one
        return c
    if isinstance(v, dict):
        return {str(k): canon_value(x) for k, x in sorted(v.items(), key=lambda kv: str(kv[0]))}
    return repr(v)


def canon(obj, with_type=True):
    """canonical dict of one container / XMLTypeBase value"""
    out = {}
    if with_type:
        nt = getattr(obj, 'NODETYPE', None)
        out['@type'] = nt.text if isinstance(nt, etree.QName) else obj.__class__.__name__
    for name, prop, kind in _props_of(obj):
        if kind == 'skip':
            continue
        if kind == 'ext':
            v = prop.get_actual_value(obj)
            if v:
                out[name] = [_c14n(x) for x in v]
            continue
        try:
            v = getattr(obj, name)
        except Exception as ex:  # noqa: BLE001
            v = f'<unreadable {ex!r}>'
        cv = canon_value(v, kind)
        if cv is None or cv == []:
            continue  # absent == empty
        out[name] = cv
    return out


def snap_descriptor(d):
    c = canon(d)
    c['@parent'] = d.parent_handle
    return c


def snap(mdib, with_group=True):
    """canonical snapshot of a provider or consumer MDIB (call with the mdib quiescent or under mdib_lock)"""
    out = {'descriptors': {}, 'states': {}, 'context': {}}
    if with_group:
        out['group'] = (mdib.mdib_version, mdib.sequence_id, mdib.instance_id)
    for d in mdib.descriptions.objects:
        out['descriptors'][d.Handle] = snap_descriptor(d)
    for st in mdib.states.objects:
        out['states'][st.DescriptorHandle] = canon(st)
    for st in mdib.context_states.objects:
        out['context'][st.Handle] = canon(st)
    return out


def diff(a, b, path='', limit=12):
    """human-readable differences between two canonical values"""
    out = []

    def rec(x, y, p):
        if len(out) >= limit:
            return
        if isinstance(x, dict) and isinstance(y, dict):
            for k in sorted(set(x) | set(y), key=str):
                if k not in x:
                    out.append(f'{p}/{k}: missing left; right={_short(y[k])}')
                elif k not in y:
                    out.append(f'{p}/{k}: left={_short(x[k])}; missing right')
                else:
                    rec(x[k], y[k], f'{p}/{k}')
                if len(out) >= limit:
                    return
        elif isinstance(x, (list, tuple)) and isinstance(y, (list, tuple)) and len(x) == len(y):
            for i, (u, v) in enumerate(zip(x, y)):
                rec(u, v, f'{p}[{i}]')
        elif x != y:
            out.append(f'{p}: {_short(x)} != {_short(y)}')

    rec(a, b, path)
    return out


def _short(v, n=160):
    s = repr(v)
    return s if len(s) <= n else s[:n] + '...'


# ------------------------------------------------------------------------------------------ index audit
def audit_table(table, name='table'):
    """recompute every index of a MultiKeyLookup from its objects and compare (returns list of problems)"""
    problems = []
    objs = list(table._objects)
    ids = {id(o) for o in objs}
    if len(ids) != len(objs):
        problems.append(f'{name}: duplicate object in _objects')
    for idx_name, idx in table._idx_defs.items():
        expected = {}
        for o in objs:
            try:
                key = idx._get_key_func(o)
            except (AttributeError, TypeError):
                continue
            if key is None and not idx._index_none_values:
                continue
            keys = key if (isinstance(key, list) and type(idx).__name__ == 'IndexDefinition1n') else [key]
            for k in dict.fromkeys(keys):  # a scan finds an object once per key, also if its list names the key twice
                expected.setdefault(k, []).append(id(o))
        actual = {k: [id(o) for o in v] for k, v in dict.items(idx)}
        for k in set(expected) | set(actual):
            e = sorted(expected.get(k, []))
            a = sorted(actual.get(k, []))
            if e != a:
                byid = {id(o): o for o in objs}
                for v_ in dict.values(idx):
                    for o in v_:
                        byid.setdefault(id(o), o)

                def _nm(i):
                    o = byid.get(i)
                    return getattr(o, 'Handle', None) or getattr(o, 'DescriptorHandle', None) or getattr(o, 'name', '?')
                only_scan = [_nm(i) for i in e if i not in a][:4]
                only_idx = [_nm(i) for i in a if i not in e][:4]
                kk = getattr(k, 'text', k)
                problems.append(f'{name}.{idx_name}[{kk!r}]: index has {len(a)} object(s), scan finds {len(e)}'
                                f'{" (different objects)" if len(a) == len(e) else ""}'
                                f' [only in scan: {only_scan}; only in index: {only_idx}]')
                if len(problems) > 8:
                    return problems
    stale = set(table._object_ids) - ids
    stale = {i for i in stale if table._object_ids.get(i)}
    if stale:
        problems.append(f'{name}: {len(stale)} back-reference entries for objects not stored')
    return problems


def audit_mdib(mdib, label='mdib'):
    p = []
    p += audit_table(mdib.descriptions, f'{label}.descriptions')
    p += audit_table(mdib.states, f'{label}.states')
    p += audit_table(mdib.context_states, f'{label}.context_states')
    return p


def referential_integrity(mdib):
    """C02.refint: every state refers to an existing descriptor and carries its current DescriptorVersion; at most
    one single state per descriptor; every non-root descriptor has an existing parent"""
    return [text for _, _, text in referential_integrity_ex(mdib)]


def referential_integrity_ex(mdib):
    """like referential_integrity but returns (kind, handle, text) triples"""
    p = []
    descr = {d.Handle: d for d in mdib.descriptions.objects}
    seen = {}
    for st in mdib.states.objects:
        h = st.DescriptorHandle
        seen[h] = seen.get(h, 0) + 1
        d = descr.get(h)
        if d is None:
            p.append(('orphan-state', h, f'state {h}: descriptor does not exist'))
        elif st.DescriptorVersion != d.DescriptorVersion:
            p.append(('state-descriptor-version', h,
                      f'state {h}: DescriptorVersion {st.DescriptorVersion} != descriptor\'s {d.DescriptorVersion}'))
    for h, n in seen.items():
        if n > 1:
            p.append(('two-single-states', h, f'descriptor {h}: {n} single states'))
    for st in mdib.context_states.objects:
        d = descr.get(st.DescriptorHandle)
        if d is None:
            p.append(('orphan-context-state', st.DescriptorHandle,
                      f'context state {st.Handle}: descriptor {st.DescriptorHandle} does not exist'))
        elif st.DescriptorVersion != d.DescriptorVersion:
            p.append(('context-state-descriptor-version', st.DescriptorHandle,
                      f'context state {st.Handle}: DescriptorVersion {st.DescriptorVersion} != descriptor\'s '
                      f'{d.DescriptorVersion}'))
    for d in descr.values():
        if d.parent_handle is not None and d.parent_handle not in descr:
            p.append(('orphan-descriptor', d.Handle, f'descriptor {d.Handle}: parent {d.parent_handle} does not exist'))
    return p
