from __future__ import annotations

import argparse
import os
import sys

from . import runner


def _disable_thp():
    """transparent huge pages make every copy-on-write fault of a forked run copy 2 MB; switch them off for this
    process tree (inherited by fork/exec)"""
    try:
        import ctypes
        ctypes.CDLL(None, use_errno=True).prctl(41, 1, 0, 0, 0)  # PR_SET_THP_DISABLE
    except Exception:  # noqa: BLE001
        pass


def main(argv=None):
    _disable_thp()
    ap = argparse.ArgumentParser(prog='check')
    ap.add_argument('check_id')
    ap.add_argument('--tier', default=os.environ.get('VERIF_TIER') or 'quick', choices=['quick', 'thorough'])
    ap.add_argument('--replay')
    ap.add_argument('--seed', type=int, default=None)
    ap.add_argument('--run', type=int, default=None, help='debug: execute only run <n> of the batch')
    a = ap.parse_args(argv)
    seed = a.seed if a.seed is not None else int(os.environ.get('VERIF_SEED') or 0)
    cid = a.check_id.upper()
    if a.replay:
        return runner.replay(cid, a.replay)
    if a.run is not None:
        return runner.single(cid, a.tier, seed, a.run)
    return runner.run_check(cid, a.tier, seed)


if __name__ == '__main__':
    sys.exit(main())
