"""Version history of a provider MDIB (DESIGN.md 5.2): an observer bound to ProviderMdib.transaction, i.e. running
inside the commit critical section, records the canonical snapshot and the transaction result of every commit."""
from __future__ import annotations

from sdc11073 import observableproperties as op

from . import canon

RESULT_LISTS = ('descr_created', 'descr_updated', 'descr_deleted', 'metric_updates', 'alert_updates', 'comp_updates',
                'ctxt_updates', 'op_updates', 'rt_updates')


def result_is_empty(tr):
    return not any(getattr(tr, n) for n in RESULT_LISTS)


def result_summary(tr):
    """canonical content of a TransactionResult: per category the list of (key, canon)"""
    out = {}
    for n in RESULT_LISTS:
        items = []
        for c in getattr(tr, n):
            if c.is_descriptor_container:
                items.append((c.Handle, canon.snap_descriptor(c)))
            elif c.is_context_state:
                items.append((c.Handle, canon.canon(c)))
            else:
                items.append((c.DescriptorHandle, canon.canon(c)))
        out[n] = items
    return out


class History:
    def __init__(self, mdib, sched=None, keep_results=True, on_commit=None, front=False):
        self.mdib = mdib
        self.s = sched
        self.initial_version = mdib.mdib_version
        self.hist = {mdib.mdib_version: canon.snap(mdib)}
        self.hist_seq = (mdib.sequence_id, mdib.instance_id)
        self.results = {}
        self.commits = []  # (version, task name, empty?)
        self.empty_commits = 0
        self.problems = []  # (clause, sig, detail) detected inside the observer
        self.keep_results = keep_results
        self.on_commit = on_commit
        self.last_version = mdib.mdib_version
        self.raw_results = {}
        self.epochs = []  # archived (sequence_id, hist dict) of earlier provider incarnations
        if front:
            # run before the provider's own observer (which sends the reports): the history entry of a version must
            # exist before anybody can receive a report of that version
            ov = type(mdib).transaction._get_instance_data(mdib)
            ov._observers.insert(0, self._observer)
        else:
            op.strongbind(mdib, transaction=self._observer)

    def new_epoch(self):
        """the provider 'restarted' (new SequenceId / InstanceId, possibly reset MdibVersion): archive the history"""
        self.epochs.append((self.hist_seq, self.hist))
        self.hist_seq = (self.mdib.sequence_id, self.mdib.instance_id)
        self.hist = {self.mdib.mdib_version: canon.snap(self.mdib)}
        self.last_version = self.mdib.mdib_version
        self.initial_version = self.mdib.mdib_version

    def _observer(self, tr):
        if tr is None:
            return
        s = self.s
        if s is not None:
            me = s.me()
            if me is not None:
                me.nopreempt += 1
        try:
            v = self.mdib.mdib_version
            empty = result_is_empty(tr)
            name = s.current.name if s is not None and s.current is not None else ''
            self.commits.append((v, name, empty))
            if empty:
                self.empty_commits += 1
                if v != self.last_version:
                    self.problems.append(('mdibversion', 'empty-commit-changed-version',
                                          f'empty transaction result but MdibVersion went {self.last_version} -> {v}'))
            else:
                if v != self.last_version + 1:
                    self.problems.append(('mdibversion', 'not-plus-one',
                                          f'non-empty commit: MdibVersion {self.last_version} -> {v}'))
                self.hist[v] = canon.snap(self.mdib)
                if self.keep_results:
                    self.results[v] = result_summary(tr)
                    self.raw_results[v] = tr
            self.last_version = v
            if self.on_commit is not None:
                self.on_commit(v, tr, empty)
        finally:
            if s is not None:
                me = s.me()
                if me is not None:
                    me.nopreempt -= 1


def version_of(kind, c):
    if kind == 'descriptors':
        return c.get('DescriptorVersion', 0)
    return c.get('StateVersion', 0)


def strip_versions(c):
    return {k: v for k, v in c.items() if k not in ('DescriptorVersion', 'StateVersion')}


def check_version_rules(hist: dict, versions_sorted=None):
    """C02.monotonic / C02.bump over a recorded history. Returns list of (clause, sig, detail)."""
    problems = []
    last_seen = {}  # (kind, key) -> (highest version counter seen, content at that time); survives deletion
    vs = versions_sorted or sorted(hist)
    prev = None
    for v in vs:
        cur = hist[v]
        for kind in ('descriptors', 'states', 'context'):
            for key, c in cur[kind].items():
                ver = version_of(kind, c)
                k = (kind, key)
                content = strip_versions(c)
                if k in last_seen:
                    lver, lcontent = last_seen[k]
                    recreated = prev is not None and key not in prev[kind]
                    what = 're-created' if recreated else 'changed'
                    if ver < lver:
                        problems.append(('monotonic', f'{kind}-decreased{"-recreate" if recreated else ""}',
                                         f'{kind} {key}: version counter {lver} -> {ver} at MdibVersion {v} ({what})'))
                    elif content != lcontent and ver <= lver:
                        d = canon.diff(lcontent, content)[:3]
                        problems.append(('bump', f'{kind}-content-changed-without-version-increase'
                                                 f'{"-recreate" if recreated else ""}',
                                         f'{kind} {key}: content {what} at MdibVersion {v} but version counter stayed '
                                         f'{ver}: {d}'))
                if k not in last_seen or ver >= last_seen[k][0]:
                    last_seen[k] = (ver, content)
        prev = cur
    return problems
