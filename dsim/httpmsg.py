"""Strict HTTP/1.1 message reader/parser of the harness (RFC 7230 framing), independent of the library under test.

Used by scripted peers (recording subscribers, middlebox, raw clients) and by the wire oracles (C17)."""
from __future__ import annotations

import zlib


class FramingError(Exception):
    pass


class Incomplete(Exception):
    """stream ended (or is not yet complete) in the middle of a message"""


class HttpMsg:
    __slots__ = ('start', 'headers', 'raw_body', 'body', 'chunked', 'chunks', 'is_request', 'method', 'path',
                 'status', 'reason', 'consumed', 'problems')

    def header(self, name, default=None):
        name = name.lower()
        for k, v in self.headers:
            if k.lower() == name:
                return v
        return default

    def headers_all(self, name):
        name = name.lower()
        return [v for k, v in self.headers if k.lower() == name]


def parse_message(buf: bytes, is_request: bool, head_request=False) -> HttpMsg:
    """parse one message from the start of buf. Raises Incomplete if more bytes are needed, FramingError if the
    bytes violate HTTP/1.1 framing. msg.consumed = number of bytes used."""
    end = buf.find(b'\r\n\r\n')
    if end < 0:
        if len(buf) > 65536 * 4:
            raise FramingError('header section too large / no CRLFCRLF')
        raise Incomplete
    head = buf[:end].decode('latin-1')
    lines = head.split('\r\n')
    m = HttpMsg()
    m.problems = []
    m.start = lines[0]
    m.is_request = is_request
    m.method = m.path = m.status = m.reason = None
    parts = lines[0].split(' ', 2)
    if is_request:
        if len(parts) != 3 or not parts[2].startswith('HTTP/1.'):
            raise FramingError(f'bad request line {lines[0]!r}')
        m.method, m.path = parts[0], parts[1]
    else:
        if len(parts) < 2 or not parts[0].startswith('HTTP/1.') or not parts[1].isdigit():
            raise FramingError(f'bad status line {lines[0]!r}')
        m.status = int(parts[1])
        m.reason = parts[2] if len(parts) > 2 else ''
    m.headers = []
    for ln in lines[1:]:
        if ':' not in ln:
            raise FramingError(f'bad header line {ln!r}')
        k, v = ln.split(':', 1)
        if k != k.strip() or not k:
            raise FramingError(f'whitespace around header name {ln!r}')
        m.headers.append((k, v.strip()))
    pos = end + 4
    te = (m.header('transfer-encoding') or '').lower()
    cl = m.headers_all('content-length')
    m.chunked = 'chunked' in te
    m.chunks = []
    if not is_request and (head_request or m.status in (204, 304) or 100 <= m.status < 200):
        m.raw_body = b''
    elif m.chunked:
        if cl:
            m.problems.append('both Content-Length and Transfer-Encoding: chunked')
        body = bytearray()
        while True:
            le = buf.find(b'\r\n', pos)
            if le < 0:
                raise Incomplete
            size_line = buf[pos:le].decode('latin-1')
            size_txt = size_line.split(';', 1)[0]
            if not size_txt or any(c not in '0123456789abcdefABCDEF' for c in size_txt):
                raise FramingError(f'bad chunk size line {size_line!r}')
            size = int(size_txt, 16)
            pos = le + 2
            if size == 0:
                # trailer section (we accept only an empty one) + final CRLF
                if buf[pos:pos + 2] == b'\r\n':
                    pos += 2
                    break
                if len(buf) < pos + 2:
                    raise Incomplete
                te_end = buf.find(b'\r\n\r\n', pos)
                if te_end < 0:
                    raise Incomplete
                pos = te_end + 4
                break
            if len(buf) < pos + size + 2:
                raise Incomplete
            body += buf[pos:pos + size]
            m.chunks.append(size)
            if buf[pos + size:pos + size + 2] != b'\r\n':
                raise FramingError('chunk data not followed by CRLF')
            pos += size + 2
        m.raw_body = bytes(body)
    elif cl:
        if len(set(cl)) > 1:
            raise FramingError(f'conflicting Content-Length headers {cl}')
        if not cl[0].isdigit():
            raise FramingError(f'bad Content-Length {cl[0]!r}')
        n = int(cl[0])
        if len(buf) < pos + n:
            raise Incomplete
        m.raw_body = buf[pos:pos + n]
        pos += n
    elif is_request:
        m.raw_body = b''
    else:
        # response delimited by connection close: caller must pass the complete stream
        m.raw_body = buf[pos:]
        pos = len(buf)
        m.problems.append('response without Content-Length / chunked (delimited by close)')
    m.consumed = pos
    m.body = None
    return m


def decode_body(m: HttpMsg):
    """apply Content-Encoding (gzip / x-lz4 / identity) with the harness' own decoders"""
    enc = (m.header('content-encoding') or '').strip().lower()
    raw = m.raw_body
    if not enc or enc == 'identity':
        return raw
    if enc == 'gzip':
        d = zlib.decompressobj(16 + zlib.MAX_WBITS)
        out = d.decompress(raw)
        if not d.eof:
            raise FramingError('truncated gzip body')
        if d.unused_data:
            raise FramingError('trailing bytes after gzip body')
        return out
    if enc in ('x-lz4', 'lz4'):
        import lz4.frame
        return lz4.frame.decompress(raw)
    raise FramingError(f'unknown content-encoding {enc!r}')


def split_stream(data: bytes, is_request: bool, head_flags=None):
    """parse a whole recorded byte stream into messages; returns (messages, leftover bytes, error or None)"""
    msgs = []
    pos = 0
    err = None
    i = 0
    while pos < len(data):
        try:
            m = parse_message(data[pos:], is_request, head_request=bool(head_flags and i < len(head_flags) and head_flags[i]))
        except Incomplete:
            break
        except FramingError as ex:
            err = str(ex)
            break
        msgs.append(m)
        pos += m.consumed
        i += 1
    return msgs, data[pos:], err


def read_from_socket(sock, is_request: bool, buf: bytearray | None = None):
    """blocking read of exactly one message from a (simulated) socket; returns (msg, leftover bytearray) or
    (None, leftover) on EOF before any byte. Incremental: the buffer is scanned once even if bytes trickle in."""
    buf = buf if buf is not None else bytearray()
    head_end = -1
    need = None  # total length needed (content-length framing)
    chunk_pos = None  # position of the next chunk-size line (chunked framing)
    complete = False
    while True:
        if buf and not complete:
            if head_end < 0:
                head_end = buf.find(b'\r\n\r\n')
                if head_end >= 0:
                    head = bytes(buf[:head_end]).decode('latin-1').lower()
                    if 'transfer-encoding:' in head and 'chunked' in head:
                        chunk_pos = head_end + 4
                    else:
                        n = 0
                        for ln in head.split('\r\n')[1:]:
                            if ln.startswith('content-length:'):
                                v = ln.split(':', 1)[1].strip()
                                n = int(v) if v.isdigit() else 0
                        need = head_end + 4 + n
                        if not is_request and 'content-length:' not in head:
                            need = None  # delimited by close
            if head_end >= 0:
                if chunk_pos is not None:
                    while True:
                        le = buf.find(b'\r\n', chunk_pos)
                        if le < 0:
                            break
                        size_txt = bytes(buf[chunk_pos:le]).decode('latin-1').split(';', 1)[0].strip()
                        try:
                            size = int(size_txt, 16)
                        except ValueError:
                            complete = True  # let the strict parser report the framing error
                            break
                        if size == 0:
                            if buf.find(b'\r\n', le + 2) >= 0 or buf[le + 2:le + 4] == b'\r\n':
                                complete = True
                            break
                        if len(buf) < le + 2 + size + 2:
                            break
                        chunk_pos = le + 2 + size + 2
                elif need is not None:
                    complete = len(buf) >= need
                elif is_request:
                    complete = True
        if complete:
            m = parse_message(bytes(buf), is_request)
            del buf[:m.consumed]
            return m, buf
        data = sock.recv(65536)
        if not data:
            if buf:
                if head_end >= 0 and need is None and chunk_pos is None and not is_request:
                    m = parse_message(bytes(buf), is_request)
                    del buf[:m.consumed]
                    return m, buf
                raise Incomplete
            return None, buf
        buf += data


def mk_response(status=202, reason='Accepted', body=b'', headers=None, content_type='application/soap+xml; charset=utf-8'):
    hs = [f'HTTP/1.1 {status} {reason}', 'Server: dsim-peer']
    if body or True:
        hs.append(f'Content-Length: {len(body)}')
    if body:
        hs.append(f'Content-Type: {content_type}')
    for k, v in (headers or {}).items():
        hs.append(f'{k}: {v}')
    return ('\r\n'.join(hs) + '\r\n\r\n').encode('latin-1') + body
