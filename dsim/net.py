"""In-process simulated network: TCP byte streams (for http.client / socketserver / http.server), UDP datagrams
with multicast (for WS-Discovery), simulated TLS wrapping, fault knobs and a wire recorder.

All blocking goes through dsim.sched; every random choice is drawn from ``NET.rng`` (seeded per run).
"""
from __future__ import annotations

import io
import random
import selectors as _selectors
import socket as _socket
import ssl as _ssl
import types
from collections import deque

from . import sched as S

NET: 'Net | None' = None

MULTICAST_GROUP = '239.255.255.250'


class Net:
    def __init__(self, seed=0):
        self.rng = random.Random(seed)
        self.listeners = {}  # (ip, port) -> SimListenSocket
        self.next_port = 40000
        self.conns: list[Conn] = []
        self.fault_counts: dict[str, int] = {}
        # knobs (set by the harness, usually at operation boundaries)
        self.frag_max = None  # None or int >= 1: recv returns at most randint(1, frag_max) bytes
        self.latency = 0.0  # one-way latency for tcp data in virtual seconds
        self.refuse = set()  # (ip, port) destinations that refuse connections
        self.blackhole = set()  # (ip, port) destinations to which connect times out
        self.interposers = {}  # (ip, port) -> callable(conn_server_side_socket) run in a new sim thread
        self.connect_hooks = []  # callables(conn) -> None, may mutate conn (e.g. set faults)
        self.record = True
        # udp
        self.udp_socks: list[SimUdpSocket] = []
        self.udp_policy = None  # callable(dgram) -> list of delays (empty list = drop); None = deliver once now
        self.udp_log = []  # (t, src, dst, data, fate)
        self.udp_latency = 0.0
        self.tls_log = []
        self.spins = []  # connection indices on which a reader spun after EOF
        self.hosts = {}  # simulated name resolution: host name -> ip

    def count(self, kind, n=1):
        self.fault_counts[kind] = self.fault_counts.get(kind, 0) + n

    def alloc_port(self):
        self.next_port += 1
        return self.next_port

    def in_flight(self):
        """True if some tcp data is queued for delivery in the future (latency) or unread udp is scheduled"""
        s = S.SCHED
        for c in self.conns:
            for p in (c.c2s, c.s2c):
                if p.chunks and p.chunks[-1][0] > s.now:
                    return True
        return False

    def reset_connections_to(self, addr):
        n = 0
        for c in self.conns:
            if c.server_addr == addr and not c.dead:
                c.reset()
                n += 1
        return n


def reset(seed=0):
    global NET
    NET = Net(seed)
    return NET


class Pipe:
    """one direction of a tcp connection"""

    def __init__(self, label):
        self.chunks = deque()  # (available_at, bytearray)
        self.closed = False  # writer closed (EOF after data)
        self.reset = False
        self.label = label
        self.total = 0
        self.rec = []  # (virtual time, step, bytes) as written by the sender
        self.stall_until = 0.0
        self.extra_latency = 0.0
        self.reader_gone = False

    def readable(self, now):
        return bool(self.chunks) and self.chunks[0][0] <= now


class Conn:
    def __init__(self, idx, client_addr, server_addr):
        self.idx = idx
        self.client_addr = client_addr
        self.server_addr = server_addr
        self.c2s = Pipe(f'c{idx}>')
        self.s2c = Pipe(f'c{idx}<')
        self.client_tls = None
        self.server_tls = None
        self.tls_established = False
        self.tls_failed = False
        self.dead = False
        self.opened_at = S.SCHED.now if S.SCHED else 0.0
        self.opened_step = S.SCHED.steps if S.SCHED else 0
        self.opener = S.SCHED.current.name if S.SCHED and S.SCHED.current else ''
        self.frag_max = None  # per connection override
        self.tags = {}
        self.hs_label = f'hs{idx}'

    def reset(self):
        s = S.SCHED
        self.dead = True
        for p in (self.c2s, self.s2c):
            p.reset = True
            p.closed = True
            s.wake(p)
        s.wake(self)


class SimSocket:
    """connected tcp socket endpoint"""

    def __init__(self, conn: Conn, is_client: bool):
        self.conn = conn
        self.is_client = is_client
        self._rx = conn.s2c if is_client else conn.c2s
        self._tx = conn.c2s if is_client else conn.s2c
        self._timeout = None
        self._closed = False
        self._really_closed = False
        self._io_refs = 0
        self.family = _socket.AF_INET
        self.type = _socket.SOCK_STREAM
        self.proto = 0
        self.tls_context = None

    # --- plain attribute style api
    def settimeout(self, t):
        self._timeout = t

    def gettimeout(self):
        return self._timeout

    def setblocking(self, flag):
        self._timeout = None if flag else 0.0

    def setsockopt(self, *a):
        pass

    def getsockopt(self, *a):
        return 0

    def getsockname(self):
        return self.conn.client_addr if self.is_client else self.conn.server_addr

    def getpeername(self):
        return self.conn.server_addr if self.is_client else self.conn.client_addr

    def fileno(self):
        return -1 if self._really_closed else 10_000 + self.conn.idx * 2 + (0 if self.is_client else 1)

    # --- data
    def sendall(self, data, flags=0):
        s = S.SCHED
        if self._really_closed:
            raise OSError(9, 'Bad file descriptor')
        if self._tx.reset:
            raise ConnectionResetError(104, 'sim: connection reset by peer')
        if self._tx.closed:
            raise BrokenPipeError(32, 'sim: local write side shut down')
        if self._tx.reader_gone:
            raise BrokenPipeError(32, 'sim: peer closed')
        data = bytes(data)
        if not data:
            return
        net = NET
        tx = self._tx
        avail = max(s.now + net.latency + tx.extra_latency, tx.stall_until)
        if tx.chunks and tx.chunks[-1][0] > avail:
            avail = tx.chunks[-1][0]
        tx.chunks.append((avail, bytearray(data)))
        tx.total += len(data)
        if net.record:
            tx.rec.append((s.now, s.steps, data))
        s.note(f'tx{tx.label}{len(data)}')
        if avail <= s.now:
            s.wake(tx)
        else:
            s.call_at(avail, lambda: s.wake(tx))
        s.yield_point('send', f'{tx.label}{len(data)}')

    def send(self, data, flags=0):
        self.sendall(data)
        return len(data)

    def recv(self, n, flags=0):
        s = S.SCHED
        rx = self._rx
        if self._really_closed:
            raise OSError(9, 'Bad file descriptor')
        deadline = None if self._timeout is None else s.now + self._timeout
        while not rx.readable(s.now):
            if rx.reset:
                raise ConnectionResetError(104, 'sim: connection reset by peer')
            if not rx.chunks and rx.closed:
                # count reads after EOF: a reader that spins on b'' never reaches a scheduling point
                self._eof_reads = getattr(self, '_eof_reads', 0) + 1
                if self._eof_reads > 20000:
                    NET.spins.append(self.conn.idx)
                    NET.count('eof_spin')
                    raise OSError(5, 'sim: reader keeps reading after EOF (spin detected)')
                return b''
            if self._really_closed:
                raise OSError(9, 'Bad file descriptor')
            rem = None if deadline is None else deadline - s.now
            if rem is not None and rem <= 0:
                if self._timeout == 0:
                    raise BlockingIOError(11, 'sim: would block')
                raise TimeoutError('timed out')
            s.block(rx, rem, 'recv', rx.label)
        net = NET
        fm = self.conn.frag_max if self.conn.frag_max is not None else net.frag_max
        if fm is not None:
            k = net.rng.randint(1, fm)
            if k < n:
                n = k
                net.count('fragment')
        avail, buf = rx.chunks[0]
        out = bytes(buf[:n])
        del buf[:n]
        if not buf:
            rx.chunks.popleft()
        s.yield_point('recvd', f'{rx.label}{len(out)}')
        return out

    def recv_into(self, b, nbytes=0, flags=0):
        n = nbytes or len(b)
        data = self.recv(n)
        b[:len(data)] = data
        return len(data)

    def makefile(self, mode='r', buffering=None, *, encoding=None, errors=None, newline=None):
        rawmode = ''.join(c for c in mode if c in 'rw')
        raw = _socket.SocketIO(self, rawmode)
        self._io_refs += 1
        if buffering is None:
            buffering = -1
        if buffering < 0:
            buffering = io.DEFAULT_BUFFER_SIZE
        if buffering == 0:
            return raw
        if 'r' in rawmode and 'w' in rawmode:
            buf = io.BufferedRWPair(raw, raw, buffering)
        elif 'r' in rawmode:
            buf = io.BufferedReader(raw, buffering)
        else:
            buf = io.BufferedWriter(raw, buffering)
        if 'b' in mode:
            return buf
        return io.TextIOWrapper(buf, encoding, errors, newline)

    def _decref_socketios(self):
        if self._io_refs > 0:
            self._io_refs -= 1
        if self._closed:
            self.close()

    def _real_close(self):
        if self._really_closed:
            return
        self._really_closed = True
        s = S.SCHED
        self._tx.closed = True
        self._rx.reader_gone = True
        if s is not None and s.me() is not None:
            s.wake(self._tx)
            s.wake(self._rx)
            s.wake(self.conn)

    def shutdown(self, how):
        s = S.SCHED
        if self._really_closed:
            raise OSError(9, 'Bad file descriptor')
        if how in (_socket.SHUT_WR, _socket.SHUT_RDWR):
            self._tx.closed = True
            if s is not None and s.me() is not None:
                s.wake(self._tx)
        if how in (_socket.SHUT_RD, _socket.SHUT_RDWR):
            # local readers get EOF
            self._rx.closed = True
            self._rx.chunks.clear()
            self._rx.reader_gone = True
            if s is not None and s.me() is not None:
                s.wake(self._rx)

    def close(self):
        self._closed = True
        if self._io_refs <= 0:
            self._real_close()

    def detach(self):
        self._closed = True
        return -1

    def __enter__(self):
        return self

    def __exit__(self, *a):
        self.close()

    # ssl-like additions (only meaningful after SimTLSContext.wrap_socket)
    def getpeercert(self, binary_form=False):
        return {} if not binary_form else b''

    def cipher(self):
        return ('SIM-TLS', 'TLSv1.3', 256)

    def version(self):
        return 'TLSv1.3' if self.tls_context is not None else None

    def unwrap(self):
        return self


class SimListenSocket:
    """listening tcp socket; created by socketserver through the fake `socket` module"""

    def __init__(self, family=_socket.AF_INET, type=_socket.SOCK_STREAM, proto=0, fileno=None):  # noqa: A002
        if type == _socket.SOCK_DGRAM:
            raise RuntimeError('use SimUdpSocket for datagram sockets')
        self.addr = None
        self.backlog = []
        self.label = 'listen?'
        self.closed = False
        self.tls_context = None
        self.family = family
        self.type = type
        self._timeout = None

    def setsockopt(self, *a):
        pass

    def settimeout(self, t):
        self._timeout = t

    def gettimeout(self):
        return self._timeout

    def bind(self, addr):
        ip, port = addr
        if port == 0:
            port = NET.alloc_port()
        self.addr = (ip, port)
        self.label = f'listen{port}'

    def getsockname(self):
        return self.addr

    def listen(self, n=5):
        NET.listeners[self.addr] = self

    def fileno(self):
        return -1 if self.closed else 9_000

    def accept(self):
        if not self.backlog:
            raise BlockingIOError(11, 'sim: no pending connection')
        sock = self.backlog.pop(0)
        if self.tls_context is not None:
            self.tls_context._server_handshake(sock)
        return sock, sock.getpeername()

    def close(self):
        self.closed = True
        if NET is not None and NET.listeners.get(self.addr) is self:
            del NET.listeners[self.addr]

    def shutdown(self, how):
        pass

    def __enter__(self):
        return self

    def __exit__(self, *a):
        self.close()


def create_connection(address, timeout=_socket._GLOBAL_DEFAULT_TIMEOUT, source_address=None, *, all_errors=False):
    s = S.SCHED
    net = NET
    host, port = address
    port = int(port)
    if host == 'localhost':
        host = '127.0.0.1'
    host = net.hosts.get(host, host)
    dst = (host, port)
    tmo = None if timeout is _socket._GLOBAL_DEFAULT_TIMEOUT else timeout
    s.yield_point('connect', f'{host}:{port}')
    if dst in net.blackhole:
        net.count('connect_timeout')
        s.sleep(tmo if tmo is not None else 75.0)
        raise TimeoutError('sim: connect timed out')
    lst = net.listeners.get(dst)
    if lst is None and host != '0.0.0.0':
        lst = net.listeners.get(('0.0.0.0', port))
    if dst in net.refuse:
        net.count('refuse')
        raise ConnectionRefusedError(111, f'sim: connection refused (fault) {dst}')
    if lst is None or lst.closed:
        raise ConnectionRefusedError(111, f'sim: nobody listens on {dst}')
    src_ip = source_address[0] if source_address else (s.current.node or host)
    cli_addr = (src_ip, net.alloc_port())
    conn = Conn(len(net.conns), cli_addr, dst)
    net.conns.append(conn)
    for hook in net.connect_hooks:
        hook(conn)
    cli = SimSocket(conn, True)
    srv = SimSocket(conn, False)
    if tmo is not None:
        cli.settimeout(tmo)
    inter = net.interposers.get(dst)
    if inter is not None and not conn.tags.get('bypass'):
        conn.tags['interposed'] = True
        inter(srv, conn)
    else:
        lst.backlog.append(srv)
        s.wake(lst)
    return cli


class _BypassCtx:
    """connections opened inside bypass the interposer of the destination (used by the middlebox itself)"""

    def __enter__(self):
        self.hook = lambda conn: conn.tags.__setitem__('bypass', True)
        NET.connect_hooks.append(self.hook)

    def __exit__(self, *a):
        NET.connect_hooks.remove(self.hook)


def bypass():
    return _BypassCtx()


class SimServerSelector:
    """replacement for socketserver._ServerSelector (serve_forever polls one listening socket)"""

    def __init__(self):
        self.sock = None

    def register(self, fileobj, events, data=None):
        self.sock = getattr(fileobj, 'socket', fileobj)

    def select(self, timeout=None):
        s = S.SCHED
        if not self.sock.backlog:
            s.block(self.sock, timeout, 'select', self.sock.label)
        return [(None, 1)] if self.sock.backlog else []

    def close(self):
        pass

    def __enter__(self):
        return self

    def __exit__(self, *a):
        pass


# ---------------------------------------------------------------------------------- simulated TLS
class SimTLSContext:
    """duck-typed ssl.SSLContext: wrap_socket marks the connection as TLS and performs a simulated handshake.

    A TLS client talking to a plaintext listener, or a plaintext client talking to a TLS listener, fails with
    ssl.SSLError / a dropped connection at the place the real library would fail."""

    def __init__(self, name, server_side=False, verify_mode=_ssl.CERT_REQUIRED, has_cert=True):
        self.name = name
        self.server_side = server_side
        self.verify_mode = verify_mode
        self.has_cert = has_cert
        self.check_hostname = False

    def set_alpn_protocols(self, protos):
        pass

    def wrap_socket(self, sock, server_side=False, do_handshake_on_connect=True, suppress_ragged_eofs=True,
                    server_hostname=None, session=None):
        net = NET
        if isinstance(sock, SimListenSocket):
            sock.tls_context = self
            net.tls_log.append(('listen', self.name, sock.addr))
            return sock
        if server_side:
            self._server_handshake(sock)
            return sock
        return self._client_handshake(sock)

    def _client_handshake(self, sock: SimSocket):
        s = S.SCHED
        net = NET
        conn = sock.conn
        conn.client_tls = self
        sock.tls_context = self
        net.tls_log.append(('client', self.name, conn.server_addr, conn.idx))
        lst = net.listeners.get(conn.server_addr)
        server_is_tls = (lst is not None and lst.tls_context is not None) or conn.tags.get('server_tls')
        if not server_is_tls:
            # ClientHello hits a plaintext server
            try:
                sock.sendall(b'\x16\x03\x01\x02\x00\x01\x00\x01\xfc\x03\x03')
            except OSError:
                pass
            net.count('tls_mismatch')
            raise _ssl.SSLError(1, '[SSL: WRONG_VERSION_NUMBER] sim: peer does not speak TLS')
        s.wake(conn)
        deadline = None if sock._timeout is None else s.now + sock._timeout
        while not conn.tls_established:
            if conn.tls_failed or conn.dead:
                raise _ssl.SSLError(1, 'sim: tls handshake failed')
            rem = None if deadline is None else deadline - s.now
            if rem is not None and rem <= 0:
                raise TimeoutError('sim: tls handshake timed out')
            s.block(conn, rem, 'tls-hs', conn.hs_label)
        return sock

    def _server_handshake(self, sock: SimSocket):
        s = S.SCHED
        net = NET
        conn = sock.conn
        conn.server_tls = self
        sock.tls_context = self
        while conn.client_tls is None:
            if conn.c2s.chunks or conn.c2s.closed or conn.dead:
                # plaintext bytes (or EOF) instead of a ClientHello
                conn.tls_failed = True
                net.count('tls_mismatch')
                conn.reset()
                raise _ssl.SSLError(1, '[SSL: HTTP_REQUEST] sim: plaintext on tls listener')
            s.block(conn, 10.0, 'tls-accept', conn.hs_label)
            # a client that never speaks: give up after the handshake timeout
            if conn.client_tls is None and not conn.c2s.chunks and s.current.timed_out:
                conn.tls_failed = True
                conn.reset()
                raise _ssl.SSLError(1, 'sim: handshake timeout')
        cctx = conn.client_tls
        if self.verify_mode == _ssl.CERT_REQUIRED and not cctx.has_cert:
            conn.tls_failed = True
            conn.reset()
            raise _ssl.SSLError(1, 'sim: peer did not return a certificate')
        conn.tls_established = True
        s.wake(conn)
        return sock


# ---------------------------------------------------------------------------------- UDP
class SimUdpSocket:
    def __init__(self, family=_socket.AF_INET, type=_socket.SOCK_DGRAM, proto=0, fileno=None):  # noqa: A002
        self.addr = None
        self.queue = deque()
        self.closed = False
        self.memberships = set()  # (group, interface ip)
        self.mcast_if = None
        self._timeout = None
        self.label = f'udp{len(NET.udp_socks)}'
        self.idx = len(NET.udp_socks)
        NET.udp_socks.append(self)
        self.family = family
        self.type = type
        self.send_fail = 0  # number of upcoming sendto calls that raise OSError

    def setsockopt(self, level, opt, value):
        if level == _socket.IPPROTO_IP and opt == _socket.IP_ADD_MEMBERSHIP:
            grp = _socket.inet_ntoa(value[:4])
            ifc = _socket.inet_ntoa(value[4:8])
            self.memberships.add((grp, ifc))
        elif level == _socket.IPPROTO_IP and opt == _socket.IP_MULTICAST_IF:
            self.mcast_if = _socket.inet_ntoa(value)

    def getsockopt(self, *a):
        return 0

    def bind(self, addr):
        ip, port = addr
        if port == 0:
            port = NET.alloc_port()
        self.addr = (ip, port)

    def getsockname(self):
        return self.addr

    def setblocking(self, flag):
        self._timeout = None if flag else 0.0

    def settimeout(self, t):
        self._timeout = t

    def fileno(self):
        return -1 if self.closed else 20_000 + self.idx

    def sendto(self, data, addr):
        s = S.SCHED
        net = NET
        if self.closed:
            raise OSError(9, 'Bad file descriptor')
        if self.send_fail > 0:
            self.send_fail -= 1
            net.count('udp_send_error')
            raise OSError(101, 'sim: network unreachable')
        data = bytes(data)
        src = (self.mcast_if or self.addr[0], self.addr[1])
        dgram = {'t': s.now, 'src': src, 'dst': (addr[0], int(addr[1])), 'data': data, 'sock': self.idx,
                 'n': len(net.udp_log)}
        delays = [net.udp_latency]
        if net.udp_policy is not None:
            delays = net.udp_policy(dgram)
        dgram['delays'] = list(delays)
        net.udp_log.append(dgram)
        s.note(f'udp{len(data)}')
        for d in delays:
            self._deliver_later(dgram, d)
        s.yield_point('sendto', f'{addr[0]}:{addr[1]}:{len(data)}')
        return len(data)

    def _deliver_later(self, dgram, delay):
        s = S.SCHED
        net = NET

        def deliver():
            dst_ip, dst_port = dgram['dst']
            for sock in net.udp_socks:
                if sock.closed or sock.addr is None:
                    continue
                if dst_ip == MULTICAST_GROUP:
                    ok = sock.addr[1] == dst_port and any(g == dst_ip for g, _ in sock.memberships)
                    if ok and net.udp_partition(dgram['src'][0], next(i for g, i in sock.memberships if g == dst_ip)):
                        ok = False
                else:
                    ok = sock.addr[1] == dst_port and sock.addr[0] in (dst_ip, '0.0.0.0')
                    if ok and net.udp_partition(dgram['src'][0], dst_ip):
                        ok = False
                if ok:
                    sock.queue.append((dgram['data'], dgram['src']))
                    s.wake(sock)
                    s.wake(net)  # selectors wait on the net object
        if delay <= 0:
            deliver()
        else:
            s.call_later(delay, deliver)

    def recvfrom(self, bufsize, flags=0):
        s = S.SCHED
        deadline = None if self._timeout is None else s.now + self._timeout
        while not self.queue:
            if self.closed:
                raise OSError(9, 'Bad file descriptor')
            rem = None if deadline is None else deadline - s.now
            if rem is not None and rem <= 0:
                raise BlockingIOError(11, 'sim: would block')
            s.block(self, rem, 'recvfrom', self.label)
        data, src = self.queue.popleft()
        s.yield_point('recvdfrom', f'{self.label}:{len(data)}')
        return data[:bufsize], src

    def close(self):
        self.closed = True

    def __repr__(self):
        return f'<SimUdpSocket {self.addr}>'


def _udp_partition_default(self, a, b):
    return False


Net.udp_partition = _udp_partition_default


class SimUdpSelector:
    """selectors.DefaultSelector replacement for NetworkingThread (read readiness of udp sockets; write always)"""

    def __init__(self):
        self.entries = []  # (sock, events)
        self.label = 'udpsel'

    def register(self, fileobj, events, data=None):
        key = _selectors.SelectorKey(fileobj, fileobj.fileno(), events, data)
        self.entries.append(key)
        return key

    def unregister(self, fileobj):
        self.entries = [k for k in self.entries if k.fileobj is not fileobj]

    def select(self, timeout=None):
        s = S.SCHED
        net = NET

        def ready():
            out = []
            for k in self.entries:
                ev = 0
                if k.events & _selectors.EVENT_WRITE:
                    ev |= _selectors.EVENT_WRITE
                if k.events & _selectors.EVENT_READ and k.fileobj.queue:
                    ev |= _selectors.EVENT_READ
                if ev:
                    out.append((k, ev))
            return out
        r = ready()
        if r or (timeout is not None and timeout <= 0):
            s.yield_point('udpsel')
            return r
        s.block(net, timeout, 'udpselect', self.label)
        return ready()

    def close(self):
        self.entries = []

    def get_map(self):
        return {k.fileobj: k for k in self.entries}


def make_fake_socket_module(sock_factory):
    fake = types.ModuleType('dsim_fake_socket')
    for name in dir(_socket):
        if not name.startswith('__'):
            setattr(fake, name, getattr(_socket, name))
    fake.socket = sock_factory
    fake.create_connection = create_connection
    return fake


def make_fake_selectors_module(selector_cls):
    fake = types.ModuleType('dsim_fake_selectors')
    for name in dir(_selectors):
        if not name.startswith('__'):
            setattr(fake, name, getattr(_selectors, name))
    fake.DefaultSelector = selector_cls
    return fake


_installed = False


def install():
    """hook the simulated network into socket / socketserver (module-level seams; no repo change)"""
    global _installed
    if _installed:
        return
    _installed = True
    import socketserver
    socketserver.socket = make_fake_socket_module(SimListenSocket)
    socketserver._ServerSelector = SimServerSelector
    _socket.create_connection = create_connection
    _socket.gethostbyname = lambda h: h if h[:1].isdigit() else (NET.hosts.get(h, '127.0.0.1') if NET is not None else '127.0.0.1')


def install_udp():
    """replace socket/selectors seen by sdc11073.wsdiscovery.networkingthread"""
    from sdc11073.wsdiscovery import networkingthread as nt
    nt.socket = make_fake_socket_module(SimUdpSocket)
    nt.selectors = make_fake_selectors_module(SimUdpSelector)
