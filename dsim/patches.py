"""Install every seam, in the order that matters, then import the system under test.

Nothing in /repo is changed: all seams are module attributes / injected components (DESIGN.md section 2.1).
"""
from __future__ import annotations

import gc
import os
import random
import sys
import uuid

_done = False
_uuid_rng = random.Random(0)
_real_uuid4 = uuid.uuid4


def _sim_uuid4():
    return uuid.UUID(int=_uuid_rng.getrandbits(128), version=4)


class OrderedIdSet:
    """insertion-ordered replacement for the id-hashed `set` in MultiKeyLookup._objects (same API subset);
    iteration order of the original depends on object addresses, i.e. on ASLR and allocation history"""

    def __init__(self):
        self._d = {}

    def add(self, o):
        self._d[id(o)] = o

    def remove(self, o):
        del self._d[id(o)]

    def discard(self, o):
        self._d.pop(id(o), None)

    def clear(self):
        self._d.clear()

    def __contains__(self, o):
        return id(o) in self._d

    def __iter__(self):
        # live iteration, as over the original set: adding / removing during a Python-level iteration raises
        # RuntimeError (a snapshot here would hide unsynchronised iteration in the code under test)
        return iter(self._d.values())

    def __len__(self):
        return len(self._d)

    def copy(self):
        n = OrderedIdSet()
        n._d = dict(self._d)
        return n


def install(repo='/repo'):
    global _done
    if _done:
        return
    _done = True
    os.environ.setdefault('SDC11073_VERIF', '1')
    import logging
    if os.environ.get('DSIM_LOG'):
        logging.basicConfig(level=getattr(logging, os.environ['DSIM_LOG'].upper(), logging.WARNING), stream=sys.stderr)
    else:
        logging.disable(logging.CRITICAL)  # logging of the library is not part of any property; keeps runs fast
    from . import sched, net, aio
    sched.install()
    net.install()
    aio.install()
    uuid.uuid4 = _sim_uuid4
    import http.server
    http.server.BaseHTTPRequestHandler.log_message = lambda self, *a, **kw: None  # stderr chatter of the stdlib server
    import socketserver
    socketserver.BaseServer.handle_error = lambda self, request, client_address: None  # (checks that care override it)
    if repo not in sys.path:
        sys.path.insert(0, repo)  # for tests.mockstuff and tutorial.*
    import sdc11073.definitions_sdc  # noqa: F401  fills the ProtocolsRegistry
    import sdc11073.multikey as mk
    _orig_init = mk.MultiKeyLookup.__init__

    def _init(self, *a, **kw):
        _orig_init(self, *a, **kw)
        self._objects = OrderedIdSet()

    mk.MultiKeyLookup.__init__ = _init
    net.install_udp()
    # preload everything a run may need, so that forked children never pay for imports
    import sdc11073.provider  # noqa: F401
    import sdc11073.provider.periodicreports  # noqa: F401
    import sdc11073.consumer  # noqa: F401
    import sdc11073.consumer.consumerimpl  # noqa: F401
    import sdc11073.mdib  # noqa: F401
    import sdc11073.wsdiscovery  # noqa: F401
    import sdc11073.location  # noqa: F401
    import aiohttp.client_exceptions  # noqa: F401
    from . import canon, history, values, workload, xsd  # noqa: F401
    xsd.schema()
    gc.collect()
    gc.freeze()  # children must not touch (copy-on-write) the pages of the preloaded heap


def begin_run(seed: int):
    """per-run re-seeding of every PRNG the library or the harness draws from"""
    random.seed(seed ^ 0x5DEECE66D)
    _uuid_rng.seed(seed ^ 0xABCDEF)
    gc.disable()  # refcounting is deterministic; the cyclic collector is not needed inside one short run
    hook = os.environ.get('DSIM_DEBUG_HOOK')  # debugging aid: a python file executed at the start of a run
    if hook:
        exec(compile(open(hook).read(), hook, 'exec'), {'__name__': 'dsim_debug_hook'})  # noqa: S102
