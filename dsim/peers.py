"""Scripted peers of the harness: recording HTTP endpoints (raw WS-Eventing subscribers) and a raw HTTP/SOAP client.
They speak to the system under test through the simulated network only and use the harness' own HTTP parser."""
from __future__ import annotations

import threading

from lxml import etree

from . import httpmsg
from . import net as N
from . import sched as S
from .xsd import NS

WSE_ACTION = 'http://schemas.xmlsoap.org/ws/2004/08/eventing/'
DIALECT_ACTION = 'http://docs.oasis-open.org/ws-dd/ns/dpws/2009/01/Action'
PUSH = 'http://schemas.xmlsoap.org/ws/2004/08/eventing/DeliveryModes/Push'

_PARSER = etree.XMLParser(resolve_entities=False, no_network=True)


def _q(p, n):
    return etree.QName(NS[p], n)


class Received:
    __slots__ = ('t', 'step', 'conn', 'msg', 'xml', 'action', 'body', 'idx', 'raw_len', 'behaviour', 'sent_t', 'sent_step', 't_done')

    def __repr__(self):
        return f'<Received #{self.idx} t={self.t:.3f} action={self.action}>'


class Endpoint:
    """recording HTTP endpoint on the simulated network"""

    def __init__(self, ip, name, behaviour=None, port=0):
        self.ip = ip
        self.name = name
        self.behaviour = behaviour or (lambda rec: ('ok',))
        self.received = []
        self.lsock = N.SimListenSocket()
        self.lsock.bind((ip, port))
        self.lsock.listen()
        self.addr = self.lsock.addr
        self.running = True
        self.lock = threading.Lock()
        t = threading.Thread(target=self._accept_loop, name=f'ep-{name}-accept')
        t.daemon = True
        prev = S.SCHED.current.node
        S.SCHED.current.node = ip
        try:
            t.start()
        finally:
            S.SCHED.current.node = prev
        self.nconn = 0

    def url(self, path='/'):
        return f'http://{self.addr[0]}:{self.addr[1]}{path}'

    def close(self):
        self.running = False
        self.lsock.close()
        S.SCHED.wake(self.lsock)

    def _accept_loop(self):
        s = S.SCHED
        while self.running:
            if not self.lsock.backlog:
                s.block(self.lsock, 1.0, 'ep-accept', self.lsock.label)
                continue
            sock, _ = self.lsock.accept()
            self.nconn += 1
            t = threading.Thread(target=self._serve, args=(sock, self.nconn), name=f'ep-{self.name}-c{self.nconn}')
            t.daemon = True
            t.start()

    def _serve(self, sock, cidx):
        s = S.SCHED
        buf = bytearray()
        off = 0
        while True:
            try:
                msg, buf = httpmsg.read_from_socket(sock, True, buf)
            except (httpmsg.Incomplete, httpmsg.FramingError, OSError):
                break
            if msg is None:
                break
            rec = Received()
            rec.t, rec.step, rec.conn, rec.msg = s.now, s.steps, cidx, msg
            rec.raw_len = msg.consumed
            # when did the sender put the first byte of this request on the wire?
            rec.sent_t, rec.sent_step = rec.t, rec.step
            rec.t_done = None  # virtual time at which a 200 response had been written completely (ok / slow)
            acc = 0
            for wt, wstep, data in getattr(sock.conn.c2s, 'rec', ()):
                acc += len(data)
                if acc > off:
                    rec.sent_t, rec.sent_step = wt, wstep
                    break
            off += msg.consumed or 0
            rec.xml = rec.action = rec.body = None
            try:
                body = httpmsg.decode_body(msg)
                rec.body = body
                if body:
                    rec.xml = etree.fromstring(body, parser=_PARSER)
                    a = rec.xml.find(f'{{{NS["s12"]}}}Header/{{{NS["wsa"]}}}Action')
                    rec.action = a.text.strip() if a is not None and a.text else None
            except Exception as ex:  # noqa: BLE001
                rec.action = f'<unparsable {ex!r}>'
            with self.lock:
                rec.idx = len(self.received)
                beh = self.behaviour(rec)
                rec.behaviour = beh
                self.received.append(rec)
            kind = beh[0]
            try:
                if kind == 'ok':
                    sock.sendall(httpmsg.mk_response(200, 'Ok', b''))
                    rec.t_done = s.now
                elif kind == 'status':
                    body = beh[2] if len(beh) > 2 else b''
                    sock.sendall(httpmsg.mk_response(beh[1], 'Error' if beh[1] >= 400 else 'Ok', body))
                    N.NET.count(f'http_{beh[1]}')
                elif kind == 'slow':
                    N.NET.count('slow_response')
                    s.sleep(beh[1])
                    sock.sendall(httpmsg.mk_response(200, 'Ok', b''))
                    rec.t_done = s.now
                elif kind == 'reset_before_response':
                    N.NET.count('reset_before_response')
                    sock.conn.reset()
                    break
                elif kind == 'reset_mid_response':
                    N.NET.count('reset_mid_response')
                    full = httpmsg.mk_response(200, 'Ok', b'x' * 40, content_type='text/plain')
                    sock.sendall(full[:max(1, min(len(full) - 1, beh[1]))])
                    sock.conn.reset()
                    break
                elif kind == 'stall':
                    N.NET.count('stall')
                    s.sleep(beh[1])
                    sock.sendall(httpmsg.mk_response(200, 'Ok', b''))
                elif kind == 'close':
                    N.NET.count('close_without_response')
                    break
                elif kind == 'raw':
                    sock.sendall(beh[1])
            except OSError:
                break
        try:
            sock.close()
        except OSError:
            pass


class RawClient:
    """raw HTTP client with a persistent connection"""

    def __init__(self, node_ip, dst, timeout=10.0, tls=None):
        self.node_ip = node_ip
        self.dst = dst
        self.timeout = timeout
        self.tls = tls  # a (simulated) TLS client context: the connection is wrapped with it
        self.sock = None
        self.buf = bytearray()
        self.resp_sent = None

    def _connect(self):
        prev = S.SCHED.current.node
        S.SCHED.current.node = self.node_ip
        try:
            self.sock = N.create_connection(self.dst, timeout=self.timeout)
            if self.tls is not None:
                self.sock = self.tls.wrap_socket(self.sock)
        finally:
            S.SCHED.current.node = prev
        self.buf = bytearray()

    def close(self):
        if self.sock is not None:
            try:
                self.sock.close()
            except OSError:
                pass
            self.sock = None

    def post(self, path, body: bytes, headers=None, retry=True):
        """returns HttpMsg response (raises OSError / Incomplete on transport problems)"""
        hs = {'Host': f'{self.dst[0]}:{self.dst[1]}', 'Content-Type': 'application/soap+xml; charset=utf-8',
              'Content-Length': str(len(body))}
        hs.update(headers or {})
        if 'Transfer-Encoding' in hs or 'transfer-encoding' in hs:
            hs.pop('Content-Length', None)
        req = (f'POST {path} HTTP/1.1\r\n' + ''.join(f'{k}: {v}\r\n' for k, v in hs.items()) + '\r\n').encode('latin-1') + body
        return self.send_raw(req, retry)

    def send_raw(self, req: bytes, retry=True):
        for attempt in (0, 1):
            fresh = False
            if self.sock is None:
                self._connect()
                fresh = True
            try:
                n0 = len(self.sock.conn.s2c.rec)
                conn = self.sock.conn
                self.sock.sendall(req)
                resp, self.buf = httpmsg.read_from_socket(self.sock, False, self.buf)
                if resp is None:
                    raise ConnectionResetError('connection closed before response')
                # (virtual time, scheduler step) at which the server wrote the first byte of this response
                self.resp_sent = conn.s2c.rec[n0][:2] if len(conn.s2c.rec) > n0 else None
                if (resp.header('connection') or '').lower() == 'close':
                    self.close()
                return resp
            except (OSError, httpmsg.Incomplete):
                self.close()
                if fresh or not retry or attempt == 1:
                    raise
        return None


# ------------------------------------------------------------------------------------------ SOAP helpers
def envelope(action, to, body_children, msg_id, ref_params=(), extra_ns=None):
    nsmap = {'s12': NS['s12'], 'wsa': NS['wsa'], 'wse': NS['wse']}
    nsmap.update(extra_ns or {})
    env = etree.Element(_q('s12', 'Envelope'), nsmap=nsmap)
    hdr = etree.SubElement(env, _q('s12', 'Header'))
    etree.SubElement(hdr, _q('wsa', 'To')).text = to
    etree.SubElement(hdr, _q('wsa', 'Action')).text = action
    etree.SubElement(hdr, _q('wsa', 'MessageID')).text = msg_id
    for rp in ref_params:
        el = etree.fromstring(etree.tostring(rp))
        el.set(_q('wsa', 'IsReferenceParameter'), 'true')
        hdr.append(el)
    body = etree.SubElement(env, _q('s12', 'Body'))
    for c in body_children:
        body.append(c)
    return etree.tostring(env, xml_declaration=True, encoding='UTF-8')


def duration_text(seconds):
    if seconds is None:
        return None
    if float(seconds) == int(seconds):
        return f'PT{int(seconds)}S'
    return f'PT{seconds}S'


def mk_subscribe(to, notify_to, actions, expires=None, end_to=None, msg_id='urn:uuid:0', notify_ref=None, end_ref=None,
                 sep=' '):
    sub = etree.Element(_q('wse', 'Subscribe'))
    if end_to is not None:
        et = etree.SubElement(sub, _q('wse', 'EndTo'))
        etree.SubElement(et, _q('wsa', 'Address')).text = end_to
        if end_ref is not None:
            rp = etree.SubElement(et, _q('wsa', 'ReferenceParameters'))
            rp.append(end_ref)
    dl = etree.SubElement(sub, _q('wse', 'Delivery'))
    dl.set('Mode', PUSH)
    nt = etree.SubElement(dl, _q('wse', 'NotifyTo'))
    etree.SubElement(nt, _q('wsa', 'Address')).text = notify_to
    if notify_ref is not None:
        rp = etree.SubElement(nt, _q('wsa', 'ReferenceParameters'))
        rp.append(notify_ref)
    if expires is not None:
        etree.SubElement(sub, _q('wse', 'Expires')).text = duration_text(expires)
    flt = etree.SubElement(sub, _q('wse', 'Filter'))
    flt.set('Dialect', DIALECT_ACTION)
    flt.text = sep.join(actions)  # xs:list of xs:anyURI: any XML whitespace separates the members
    return envelope(WSE_ACTION + 'Subscribe', to, [sub], msg_id)


def mk_mgr_request(kind, to, msg_id, ref_params=(), expires=None):
    el = etree.Element(_q('wse', kind))
    if kind == 'Renew' and expires is not None:
        etree.SubElement(el, _q('wse', 'Expires')).text = duration_text(expires)
    return envelope(WSE_ACTION + kind, to, [el], msg_id, ref_params)


def parse_duration(txt):
    """xsd:duration (subset PnDTnHnMnS) -> seconds"""
    import re
    m = re.fullmatch(r'P(?:(\d+)D)?(?:T(?:(\d+)H)?(?:(\d+)M)?(?:(\d+(?:\.\d+)?)S)?)?', txt.strip())
    if not m:
        raise ValueError(f'bad duration {txt!r}')
    d, h, mi, sec = m.groups()
    return int(d or 0) * 86400 + int(h or 0) * 3600 + int(mi or 0) * 60 + float(sec or 0)


class SoapResponse:
    def __init__(self, http):
        self.http = http
        self.status = http.status
        self.xml = None
        self.action = None
        self.is_fault = False
        try:
            body = httpmsg.decode_body(http)
            if body:
                self.xml = etree.fromstring(body, parser=_PARSER)
                a = self.xml.find(f'{{{NS["s12"]}}}Header/{{{NS["wsa"]}}}Action')
                self.action = a.text.strip() if a is not None and a.text else None
                self.is_fault = self.xml.find(f'{{{NS["s12"]}}}Body/{{{NS["s12"]}}}Fault') is not None
        except Exception:  # noqa: BLE001
            pass

    def find(self, path):
        return None if self.xml is None else self.xml.find(path, namespaces=NS)

    def expires(self):
        el = self.find('.//wse:Expires')
        return None if el is None or not el.text else parse_duration(el.text)
