"""Store-and-forward HTTP middlebox (DESIGN.md 2.3): interposed transparently in front of a consumer's notification
listener. Towards the provider it behaves like a healthy subscriber (reads the whole request, answers 200); towards
the consumer it delivers each captured notification zero, one or several times, immediately or after later ones, or
replays old ones. It produces loss, duplication and reordering *as seen by the consumer* without changing what the
provider believes about delivery."""
from __future__ import annotations

import threading

from . import httpmsg
from . import net as N
from . import sched as S


class Middlebox:
    def __init__(self, target_addr, fates=None, node_ip='10.0.0.9', count=None):
        self.target = target_addr
        self.fates = {int(k): v for k, v in (fates or {}).items()}
        self.node_ip = node_ip
        self.captured = []  # raw request bytes in capture order
        self.meta = []  # (index, action-ish, virtual time)
        self.held = []  # [release_after_forward_count, index]
        self.forwarded = []  # indices in delivery order (with repetitions)
        self.forward_results = []  # (index, status or exception text)
        self.dropped = []
        self.active = True  # when False every notification is forwarded at once (faults stopped)
        self.out_sock = None
        self.out_buf = bytearray()
        self.lock = threading.Lock()
        self.count = count or (lambda kind, n=1: N.NET.count(kind, n))
        self.nconn = 0
        N.NET.interposers[target_addr] = self._on_conn

    def remove(self):
        N.NET.interposers.pop(self.target, None)

    # ------------------------------------------------------------------
    def _on_conn(self, srv_sock, conn):
        self.nconn += 1
        t = threading.Thread(target=self._serve, args=(srv_sock,), name=f'mbox-conn{self.nconn}')
        t.daemon = True
        prev = S.SCHED.current.node
        S.SCHED.current.node = self.node_ip
        try:
            t.start()
        finally:
            S.SCHED.current.node = prev

    def _serve(self, sock):
        buf = bytearray()
        while True:
            try:
                msg, buf = httpmsg.read_from_socket(sock, True, buf)
            except (httpmsg.Incomplete, httpmsg.FramingError, OSError):
                break
            if msg is None:
                break
            raw = self._reserialize(msg)
            try:
                sock.sendall(httpmsg.mk_response(200, 'Ok', b''))
            except OSError:
                pass
            with self.lock:
                n = len(self.captured)
                self.captured.append(raw)
                self.meta.append((n, S.SCHED.now))
                self._apply_fate(n)
        try:
            sock.close()
        except OSError:
            pass

    @staticmethod
    def _reserialize(msg):
        """rebuild the request with Content-Length framing (body bytes and content-encoding untouched)"""
        lines = [msg.start]
        for k, v in msg.headers:
            if k.lower() in ('content-length', 'transfer-encoding'):
                continue
            lines.append(f'{k}: {v}')
        lines.append(f'Content-Length: {len(msg.raw_body)}')
        return ('\r\n'.join(lines) + '\r\n\r\n').encode('latin-1') + msg.raw_body

    def _try_merge(self, a, b):
        """one message that carries the report parts of captured messages a and b (same report type), or None"""
        from lxml import etree
        try:
            ma, mb_ = httpmsg.parse_message(self.captured[a], True), httpmsg.parse_message(self.captured[b], True)
            xa, xb = etree.fromstring(httpmsg.decode_body(ma)), etree.fromstring(httpmsg.decode_body(mb_))
            ba = xa.find('{http://www.w3.org/2003/05/soap-envelope}Body')[0]
            bb = xb.find('{http://www.w3.org/2003/05/soap-envelope}Body')[0]
            if ba.tag != bb.tag or not ba.tag.endswith('OperationInvokedReport'):
                return None
            for i, part in enumerate(list(ba)):
                bb.insert(i, part)  # the parts of the earlier message first
            body = etree.tostring(xb, xml_declaration=True, encoding='UTF-8')
            lines = [mb_.start] + [f'{k}: {v}' for k, v in mb_.headers
                                   if k.lower() not in ('content-length', 'transfer-encoding', 'content-encoding')]
            lines.append(f'Content-Length: {len(body)}')
            return ('\r\n'.join(lines) + '\r\n\r\n').encode('latin-1') + body
        except Exception:  # noqa: BLE001
            return None

    def _apply_fate(self, n):
        fate = self.fates.get(n) if self.active else None
        kind = fate[0] if fate else 'deliver'
        pending = getattr(self, 'merge_pending', None)
        if pending is not None:
            # the previous message waits to be combined with this one (a report may carry several report parts)
            self.merge_pending = None
            merged = self._try_merge(pending, n)
            if merged is not None:
                self.count('merge')
                self.captured.append(merged)
                self.meta.append((len(self.captured) - 1, S.SCHED.now))
                self._forward(len(self.captured) - 1)
                self._release_due()
                return
            self._forward(pending)
        if kind == 'merge':
            self.merge_pending = n
            return
        if kind == 'drop':
            self.dropped.append(n)
            self.count('drop')
        elif kind == 'dup':
            self.count('dup')
            for _ in range(int(fate[1])):
                self._forward(n)
        elif kind == 'delay':
            self.count('delay')
            self.held.append([len(self.forwarded) + int(fate[1]), n])
        elif kind == 'replay':
            self._forward(n)
            j = int(fate[1])
            if 0 <= j < n:
                self.count('replay')
                self._forward(j)
        else:
            self._forward(n)
        self._release_due()

    def _release_due(self):
        progress = True
        while progress:
            progress = False
            for item in list(self.held):
                if len(self.forwarded) >= item[0]:
                    self.held.remove(item)
                    self.count('reordered_delivery')
                    self._forward(item[1])
                    progress = True

    def flush(self):
        """faults stop: deliver everything still held, in capture order"""
        with self.lock:
            self.active = False
            if getattr(self, 'merge_pending', None) is not None:
                self._forward(self.merge_pending)
                self.merge_pending = None
            for item in sorted(self.held, key=lambda x: x[1]):
                self._forward(item[1])
            self.held = []

    def _forward(self, n):
        raw = self.captured[n]
        for attempt in (0, 1):
            try:
                if self.out_sock is None:
                    with N.bypass():
                        prev = S.SCHED.current.node
                        S.SCHED.current.node = self.node_ip
                        try:
                            self.out_sock = N.create_connection(self.target, timeout=10)
                        finally:
                            S.SCHED.current.node = prev
                    self.out_buf = bytearray()
                self.out_sock.sendall(raw)
                resp, self.out_buf = httpmsg.read_from_socket(self.out_sock, False, self.out_buf)
                if resp is None:
                    raise OSError('connection closed by consumer')
                self.forwarded.append(n)
                self.forward_results.append((n, resp.status))
                if (resp.header('connection') or '').lower() == 'close':
                    self.out_sock.close()
                    self.out_sock = None
                return
            except (OSError, httpmsg.Incomplete, httpmsg.FramingError) as ex:
                try:
                    if self.out_sock is not None:
                        self.out_sock.close()
                except OSError:
                    pass
                self.out_sock = None
                if attempt == 1:
                    self.forwarded.append(n)
                    self.forward_results.append((n, f'error {ex!r}'))
