"""Batch runner: seeds -> plans -> one forked child per simulated run; aggregation, minimisation, replay, evidence.

Process layout:  orchestrator (no patches)  ->  W workers (patches installed, library imported once)
                 ->  one forked child per run (runs the simulation, writes one JSON result, _exit).
"""
from __future__ import annotations

import hashlib
import importlib
import json
import os
import random
import re
import select
import signal
import sys
import time
import traceback

VERIF = os.path.dirname(os.path.dirname(os.path.abspath(__file__)))
KNOWN_FINDINGS_FILE = os.path.join(VERIF, 'known_findings.json')
NWORKERS = int(os.environ.get('VERIF_WORKERS', '16'))
RUN_WALL_TIMEOUT = float(os.environ.get('VERIF_RUN_TIMEOUT', '600'))


def derive_seed(*parts) -> int:
    h = hashlib.blake2b(repr(parts).encode(), digest_size=8).digest()
    return int.from_bytes(h, 'big')


def load_check(check_id: str):
    mod = importlib.import_module(f'checks.{check_id.lower()}')
    return mod.CHECK


def load_known_findings():
    try:
        with open(KNOWN_FINDINGS_FILE) as f:
            data = json.load(f)
    except FileNotFoundError:
        return []
    return [e for e in data.get('findings', [])]


def match_known(known, prop, clause, sig):
    """an open entry matches when property and clause are equal and its `sig` regex matches the violation's sig"""
    for e in known:
        if e.get('status') != 'open' or e.get('property') != prop:
            continue
        if e.get('clause') != clause:
            continue
        if re.fullmatch(e.get('sig', '.*'), sig or ''):
            return e
    return None


# ------------------------------------------------------------------------------------------ child execution
def _child_main(check, plan, wfd, gen=None):
    from . import sched as S

    def emit(res):
        data = json.dumps(res, default=repr).encode()
        try:
            off = 0
            while off < len(data):
                off += os.write(wfd, data[off:off + 65536])
        finally:
            os._exit(0)

    def on_abort(kind, detail):
        s = S.SCHED
        emit({'harness_error': kind, 'detail': detail[-6000:], 'ring': (s.ring[-60:] if s else [])})

    try:
        if plan is None:
            # plan generation happens in the child as well: it runs library code (model MDIB) and must not leave
            # traces (e.g. modified class-level defaults) in the long-lived worker
            plan = _plan_for(check, *gen)
        res = check.execute(plan, on_abort)
        if gen is not None and (res.get('violations') or res.get('harness_error') or os.environ.get('VERIF_KEEP_PLAN')
                                or gen[2] < (8 if os.environ.get('VERIF_DIGEST_LOG') else 3)):
            res['plan'] = plan
    except BaseException:  # noqa: BLE001
        res = {'harness_error': 'EXCEPTION', 'detail': traceback.format_exc()[-6000:]}
        if plan is not None:
            res['plan'] = plan
    emit(res)


def fork_execute(check, plan, wall_timeout=None, gen=None):
    """run one plan (or generate it from gen=(base_seed, tier, index) first) in a forked child; returns the result
    dict (never raises for child problems)"""
    wall_timeout = wall_timeout or RUN_WALL_TIMEOUT
    rfd, wfd = os.pipe()
    t0 = time.perf_counter()
    pid = os.fork()
    if pid == 0:
        try:
            os.close(rfd)
            signal.signal(signal.SIGINT, signal.SIG_DFL)
            _child_main(check, plan, wfd, gen)
        finally:
            os._exit(1)
    os.close(wfd)
    chunks = []
    deadline = time.monotonic() + wall_timeout
    timed_out = False
    while True:
        rem = deadline - time.monotonic()
        if rem <= 0:
            timed_out = True
            break
        r, _, _ = select.select([rfd], [], [], min(rem, 5.0))
        if r:
            b = os.read(rfd, 1 << 20)
            if not b:
                break
            chunks.append(b)
    os.close(rfd)
    if timed_out:
        try:
            os.kill(pid, signal.SIGKILL)
        except ProcessLookupError:
            pass
    try:
        _, status = os.waitpid(pid, 0)
    except ChildProcessError:
        status = 0
    wall = time.perf_counter() - t0
    if timed_out:
        return {'harness_error': 'WALL_TIMEOUT', 'detail': f'run exceeded {wall_timeout}s wall', 'wall': wall}
    data = b''.join(chunks)
    if not data:
        return {'harness_error': 'CHILD_DIED', 'detail': f'child exit status {status}', 'wall': wall}
    try:
        res = json.loads(data)
    except ValueError:
        return {'harness_error': 'BAD_RESULT', 'detail': data[-2000:].decode('latin-1'), 'wall': wall}
    res['wall'] = wall
    return res


# ------------------------------------------------------------------------------------------ worker
def _worker_setup():
    sys.path.insert(0, VERIF)
    from . import patches
    patches.install()


def _plan_for(check, base_seed, tier, i):
    run_seed = derive_seed(base_seed, check.id, i)
    plan = check.generate(random.Random(run_seed), tier)
    plan['run_seed'] = run_seed
    plan['run_index'] = i
    return plan


def _worker_batch(check_id, tier, base_seed, indices, deadline, wfd):
    _worker_setup()
    check = load_check(check_id)
    out = os.fdopen(wfd, 'w')
    for i in indices:
        if time.monotonic() > deadline:
            break
        try:
            res = fork_execute(check, None, gen=(base_seed, tier, i))
        except BaseException:  # noqa: BLE001
            res = {'harness_error': 'WORKER_EXCEPTION', 'detail': traceback.format_exc()[-4000:]}
        rec = {'i': i, 'res': res}
        if 'plan' in res:
            rec['plan'] = res.pop('plan')
        out.write(json.dumps(rec, default=repr) + '\n')
        out.flush()
    out.close()


def _spawn(fn, *args):
    """fork a process running fn(*args, wfd); returns (pid, rfd)"""
    rfd, wfd = os.pipe()
    pid = os.fork()
    if pid == 0:
        code = 0
        try:
            os.close(rfd)
            fn(*args, wfd)
        except BaseException:  # noqa: BLE001
            traceback.print_exc()
            code = 3
        finally:
            os._exit(code)
    os.close(wfd)
    return pid, rfd


def _collect(procs, hard_deadline):
    """read JSON lines from all worker pipes until EOF (or hard deadline)"""
    bufs = {rfd: b'' for _, rfd in procs}
    open_fds = set(bufs)
    recs = []
    while open_fds:
        rem = hard_deadline - time.monotonic()
        if rem <= 0:
            break
        r, _, _ = select.select(list(open_fds), [], [], min(rem, 2.0))
        for fd in r:
            b = os.read(fd, 1 << 20)
            if not b:
                open_fds.discard(fd)
                continue
            bufs[fd] += b
            *lines, bufs[fd] = bufs[fd].split(b'\n')
            for ln in lines:
                if ln.strip():
                    recs.append(json.loads(ln))
    killed = 0
    for pid, rfd in procs:
        if rfd in open_fds:
            try:
                os.kill(pid, signal.SIGKILL)
                killed += 1
            except ProcessLookupError:
                pass
        try:
            os.close(rfd)
        except OSError:
            pass
        try:
            os.waitpid(pid, 0)
        except ChildProcessError:
            pass
    return recs, killed


# ------------------------------------------------------------------------------------------ minimisation
def _same_violation(res, clause):
    v = res.get('violations') or []
    return bool(v) and v[0].get('clause') == clause


def _shrink_task(check_id, plan, clause, budget_runs, budget_s, wfd):
    _worker_setup()
    check = load_check(check_id)
    t_end = time.monotonic() + budget_s
    runs = [0]

    def test(p):
        if runs[0] >= budget_runs or time.monotonic() > t_end:
            return False
        runs[0] += 1
        return _same_violation(fork_execute(check, p), clause)

    best = plan
    # 1. ddmin over the operation list
    for key in getattr(check, 'shrink_lists', ('ops',)):
        ops = list(best.get(key) or [])
        n = 2
        while len(ops) >= 2 and runs[0] < budget_runs and time.monotonic() < t_end:
            chunk = max(1, len(ops) // n)
            reduced = False
            for start in range(0, len(ops), chunk):
                cand_ops = ops[:start] + ops[start + chunk:]
                cand = dict(best)
                cand[key] = cand_ops
                if test(cand):
                    ops = cand_ops
                    best = cand
                    n = max(n - 1, 2)
                    reduced = True
                    break
            if not reduced:
                if chunk == 1:
                    break
                n = min(n * 2, len(ops))
        # 2. per-operation simplification offered by the check
    simp = getattr(check, 'simplify', None)
    if simp is not None:
        progress = True
        while progress and runs[0] < budget_runs and time.monotonic() < t_end:
            progress = False
            for cand in simp(best):
                if test(cand):
                    best = cand
                    progress = True
                    break
    final = fork_execute(check, best)
    with os.fdopen(wfd, 'w') as out:
        out.write(json.dumps({'plan': best, 'res': final, 'shrink_runs': runs[0]}, default=repr) + '\n')


def shrink(check_id, plan, clause, budget_runs=150, budget_s=90):
    pid, rfd = _spawn(_shrink_task, check_id, plan, clause, budget_runs, budget_s)
    recs, _ = _collect([(pid, rfd)], time.monotonic() + budget_s + RUN_WALL_TIMEOUT + 30)
    if not recs:
        return plan, None, 0
    return recs[0]['plan'], recs[0]['res'], recs[0]['shrink_runs']


# ------------------------------------------------------------------------------------------ batch
def run_check(check_id: str, tier: str, base_seed: int, out=sys.stdout):
    sys.path.insert(0, VERIF)
    t0 = time.monotonic()
    t0_wall = time.time()
    # the orchestrator only needs the check's metadata; import with patches in a worker to keep this process clean
    meta_pid, meta_rfd = _spawn(_meta_task, check_id, tier)
    meta_recs, _ = _collect([(meta_pid, meta_rfd)], time.monotonic() + 120)
    if not meta_recs:
        print(f'HARNESS-ERROR property={check_id} could not load check', file=out)
        return 2
    meta = meta_recs[0]
    n_runs = int(os.environ.get('VERIF_RUNS', meta['runs']))
    wall_budget = float(os.environ.get('VERIF_WALL', meta['wall']))
    deadline = time.monotonic() + wall_budget
    nw = min(NWORKERS, max(1, n_runs))
    procs = []
    for k in range(nw):
        indices = list(range(k, n_runs, nw))
        procs.append(_spawn(_worker_batch, check_id, tier, base_seed, indices, deadline))
    recs, killed = _collect(procs, deadline + RUN_WALL_TIMEOUT + 60)
    recs.sort(key=lambda r: r['i'])
    known = load_known_findings()

    if os.environ.get('VERIF_DIGEST_LOG'):
        # self-test aid: one line per run (index, event-log digest, verdict), compared between two batches
        with open(os.environ['VERIF_DIGEST_LOG'], 'w') as f:
            for rec in recs:
                r_ = rec['res']
                verdict = 'HARNESS:' + str(r_['harness_error']) if r_.get('harness_error') else \
                    ','.join(sorted({v['clause'] for v in r_.get('violations') or []})) or 'ok'
                f.write(f"{rec['i']} {r_.get('digest')} {r_.get('steps')} {verdict}\n")
        # the plans of the first runs, as replay files: replaying them in a fresh process must give the same digest
        pdir = os.environ['VERIF_DIGEST_LOG'] + '.plans'
        os.makedirs(pdir, exist_ok=True)
        for rec in recs:
            if 'plan' in rec and rec['i'] < 8 and not rec['res'].get('harness_error'):
                _write_json(os.path.join(pdir, f"{rec['i']}.json"),
                            {'check': check_id, 'plan': rec['plan'], 'digest': rec['res'].get('digest'), 'clause': None})
    digests = set()
    nontrivial_digests = set()
    fault_counts, probes, strategies = {}, {}, {}
    sim_seconds = 0.0
    steps = 0
    harness_errors = []
    violations = []  # (rec, violation)
    known_hits = {}
    samples = []
    for rec in recs:
        res = rec['res']
        if res.get('harness_error'):
            harness_errors.append(rec)
            continue
        d = res.get('digest')
        digests.add(d)
        if res.get('nontrivial'):
            nontrivial_digests.add(res.get('distinct_key', d))
        for k, v in (res.get('fault_counts') or {}).items():
            fault_counts[k] = fault_counts.get(k, 0) + v
        for k, v in (res.get('probes') or {}).items():
            probes[k] = probes.get(k, 0) + v
        st = res.get('strategy')
        if st:
            strategies[st] = strategies.get(st, 0) + 1
        sim_seconds += res.get('virtual_s', 0.0)
        steps += res.get('steps', 0)
        for kv in res.get('known') or []:
            key = (kv['clause'], kv['sig'])
            known_hits[key] = known_hits.get(key, 0) + 1
        for v in res.get('violations') or []:
            e = match_known(known, check_id, v.get('clause'), v.get('sig'))
            if e is not None:
                key = (v['clause'], v['sig'])
                known_hits[key] = known_hits.get(key, 0) + 1
            else:
                violations.append((rec, v))
        if 'plan' in rec and len(samples) < 3 and not res.get('violations'):
            samples.append(_sample_of(rec['plan'], res))
    wall = time.monotonic() - t0
    exit_code = 0
    replay_paths = []
    open_known = [e for e in known if e.get('status') == 'open' and e.get('property') == check_id]
    witness_results = {}
    for e in open_known:
        hits = sum(n for (c, sg), n in known_hits.items() if match_known([e], check_id, c, sg) is not None)
        wit = e.get('witness')
        rep = ''
        if wit:
            wpath = os.path.join(VERIF, wit)
            try:
                with open(wpath) as f:
                    wplan = json.load(f)['plan']
                pid, rfd = _spawn(_replay_task, check_id, wplan)
                wrecs, _ = _collect([(pid, rfd)], time.monotonic() + RUN_WALL_TIMEOUT + 60)
                wres = wrecs[0]['res'] if wrecs else {}
                kn = wres.get('known') or []
                ok = any(match_known([e], check_id, k['clause'], k['sig']) is not None for k in kn) or \
                    any(match_known([e], check_id, v.get('clause'), v.get('sig')) is not None
                        for v in wres.get('violations') or [])
                rep = f' witness={wit} reproduced={"yes" if ok else "NO"}'
                witness_results[wit] = ok
            except Exception as ex:  # noqa: BLE001
                rep = f' witness={wit} error={ex!r}'
        print(f'KNOWN-FINDING: property={check_id} clause={e.get("clause")} sig={e.get("sig")} hits_in_this_batch={hits}'
              f'{rep} :: {e.get("description", "")}', file=out)
    if harness_errors:
        exit_code = 2
        for rec in harness_errors[:5]:
            r = rec['res']
            print(f"HARNESS-ERROR property={check_id} run={rec['i']} kind={r['harness_error']}\n{r.get('detail', '')}", file=out)
            path = os.path.join(VERIF, 'replays', f'{check_id}-harness-{rec["i"]}.json')
            _write_json(path, {'check': check_id, 'plan': rec.get('plan'), 'harness_error': r})
    if violations:
        exit_code = 1
        seen = set()
        for rec, v in violations:
            key = (v.get('clause'), v.get('sig'))
            if key in seen or len(seen) >= 3:
                continue
            seen.add(key)
            plan = rec.get('plan')
            minimized, mres, sruns = plan, rec['res'], 0
            if os.environ.get('VERIF_NO_SHRINK') != '1':
                minimized, mres2, sruns = shrink(check_id, plan, v.get('clause'))
                if mres2 is not None and _same_violation(mres2, v.get('clause')):
                    mres = mres2
                else:
                    minimized = plan
            mv = (mres.get('violations') or [v])[0]
            path = os.path.join(VERIF, 'replays', f'{check_id}-{base_seed}-{rec["i"]}.json')
            _write_json(path, {'check': check_id, 'tier': tier, 'base_seed': base_seed, 'run_index': rec['i'],
                               'clause': mv.get('clause'), 'sig': mv.get('sig'), 'detail': mv.get('detail'),
                               'digest': mres.get('digest'), 'shrink_runs': sruns, 'plan': minimized,
                               'original_ops': len((plan or {}).get('ops') or []),
                               'minimized_ops': len((minimized or {}).get('ops') or [])})
            replay_paths.append(path)
            print(f'VIOLATION property={check_id} replay={path}', file=out)
            print(f'  clause={mv.get("clause")} sig={mv.get("sig")}\n  detail={str(mv.get("detail"))[:1500]}', file=out)
            samples.append({'violation': mv, 'plan': minimized})
    n_ok = len(recs) - len(harness_errors)
    evidence = {
        'property_id': check_id,
        'tier': tier,
        'seed': base_seed,
        'level': meta['level'],
        'coverage': {
            'evaluations': len(recs),
            'distinct_nontrivial': len(nontrivial_digests),
            'rule': meta['rule'],
            'samples': samples[:4] or [{'note': 'no sample recorded'}],
            'distinct_event_log_digests': len(digests),
            'runs_requested': n_runs,
            'runs_completed_ok': n_ok,
            'runs_per_hour': round(len(recs) / max(wall, 1e-6) * 3600),
            'simulated_seconds_total': round(sim_seconds, 3),
            'scheduling_steps_total': steps,
            'fault_counts': fault_counts,
            'probes': probes,
            'strategies': strategies,
            'components': meta.get('components'),
            'workers': nw,
            'known_finding_hits': {f'{c}|{s}': n for (c, s), n in known_hits.items()},
            'known_finding_witnesses_reproduced': witness_results,
            'harness_errors': len(harness_errors),
            'workers_killed_at_deadline': killed,
        },
        'assumptions': meta.get('assumptions', []),
        'wall_s': round(wall, 2),
        'violations': len(violations),
    }
    if meta.get('exhaustive') is not None:
        evidence['coverage']['exhaustive'] = meta['exhaustive']
    if not os.environ.get('VERIF_NO_EVIDENCE'):  # (self-tests must not overwrite the evidence of a real batch)
        _write_json(os.path.join(VERIF, 'evidence', f'{check_id}.json'), evidence)
    zero = [k for k in (meta.get('expected_probes') or []) if not probes.get(k) and not fault_counts.get(k)]
    if zero:
        print(f'WARNING property={check_id} probes never hit in this batch: {zero}', file=out)
    print(f'{check_id} tier={tier} seed={base_seed} runs={len(recs)}/{n_runs} distinct_nontrivial={len(nontrivial_digests)} '
          f'violations={len(violations)} known={sum(known_hits.values())} harness_errors={len(harness_errors)} '
          f'wall={wall:.1f}s', file=out)
    return exit_code


def _sample_of(plan, res):
    p = dict(plan)
    ops = p.get('ops')
    if isinstance(ops, list) and len(ops) > 12:
        p['ops'] = ops[:12] + [f'... {len(ops) - 12} more']
    return {'plan': p, 'digest': res.get('digest'), 'steps': res.get('steps'), 'virtual_s': res.get('virtual_s')}


def _meta_task(check_id, tier, wfd):
    _worker_setup()
    check = load_check(check_id)
    b = check.budget(tier)
    meta = {'runs': b['runs'], 'wall': b['wall'], 'level': check.level, 'rule': check.rule,
            'components': check.components, 'assumptions': check.assumptions,
            'expected_probes': getattr(check, 'expected_probes', []),
            'exhaustive': getattr(check, 'exhaustive', None)}
    with os.fdopen(wfd, 'w') as out:
        out.write(json.dumps(meta) + '\n')


def _write_json(path, obj):
    os.makedirs(os.path.dirname(path), exist_ok=True)
    tmp = path + '.tmp'
    with open(tmp, 'w') as f:
        json.dump(obj, f, indent=1, default=repr, sort_keys=False)
    os.replace(tmp, path)


# ------------------------------------------------------------------------------------------ replay
def _replay_task(check_id, plan, wfd):
    _worker_setup()
    check = load_check(check_id)
    res = fork_execute(check, plan)
    with os.fdopen(wfd, 'w') as out:
        out.write(json.dumps({'res': res}, default=repr) + '\n')


def _single_task(check_id, gen, wfd):
    _worker_setup()
    check = load_check(check_id)
    res = fork_execute(check, None, gen=gen)
    with os.fdopen(wfd, 'w') as out:
        out.write(json.dumps({'res': res}, default=repr) + '\n')


def single(check_id, tier, seed, index, out=sys.stdout):
    """debug aid: execute run <index> of the batch (tier, seed) alone and print what it reported"""
    pid, rfd = _spawn(_single_task, check_id, (seed, tier, index))
    recs, _ = _collect([(pid, rfd)], time.monotonic() + RUN_WALL_TIMEOUT + 60)
    res = recs[0]['res'] if recs else {'harness_error': 'NO-RESULT'}
    if res.get('harness_error'):
        print(f"HARNESS-ERROR property={check_id} kind={res['harness_error']}\n{res.get('detail')}\n"
              + '\n'.join(res.get('ring') or []), file=out)
        return 2
    for v in res.get('violations') or []:
        print(f"  clause={v.get('clause')} sig={v.get('sig')}\n  detail={str(v.get('detail'))[:3000]}", file=out)
    if os.environ.get('VERIF_KEEP_PLAN') and res.get('plan') is not None:
        _write_json(os.environ['VERIF_KEEP_PLAN'], {'check': check_id, 'plan': res['plan'], 'digest': res.get('digest'),
                                                     'clause': None})
    print(f"run {index}: digest={res.get('digest')} steps={res.get('steps')} virtual_s={res.get('virtual_s')} "
          f"probes={res.get('probes')} faults={res.get('fault_counts')} known={res.get('known')}", file=out)
    return 1 if res.get('violations') else 0


def replay(check_id, path, out=sys.stdout):
    with open(path) as f:
        rp = json.load(f)
    pid, rfd = _spawn(_replay_task, check_id, rp['plan'])
    recs, _ = _collect([(pid, rfd)], time.monotonic() + RUN_WALL_TIMEOUT + 60)
    if not recs:
        print(f'HARNESS-ERROR property={check_id} replay produced no result', file=out)
        return 2
    res = recs[0]['res']
    if res.get('harness_error'):
        print(f"HARNESS-ERROR property={check_id} kind={res['harness_error']}\n{res.get('detail')}", file=out)
        return 2
    v = res.get('violations') or []
    exp_clause = rp.get('clause')
    if os.environ.get('VERIF_REPLAY_VERBOSE'):
        print(f"probes={res.get('probes')} stats={res.get('stats')} known={res.get('known')}", file=out)
    if v and (exp_clause is None or v[0].get('clause') == exp_clause):
        same_digest = rp.get('digest') in (None, res.get('digest'))
        print(f'VIOLATION property={check_id} replay={path}', file=out)
        print(f'  clause={v[0].get("clause")} sig={v[0].get("sig")} digest_reproduced={same_digest}\n'
              f'  detail={str(v[0].get("detail"))[:3000]}', file=out)
        if not same_digest:
            print(f'REPLAY-DIVERGED expected digest {rp.get("digest")} got {res.get("digest")}', file=out)
            return 2
        return 1
    if exp_clause is not None:
        print(f'REPLAY-NOT-REPRODUCED property={check_id} expected clause {exp_clause}; got {v[:1]} '
              f'(the code under test may have changed)', file=out)
        return 0
    if rp.get('digest') is not None and not v and rp.get('digest') != res.get('digest'):
        print(f'REPLAY-DIVERGED expected digest {rp.get("digest")} got {res.get("digest")}', file=out)
        return 2
    print(f'{check_id} replay: no violation; digest={res.get("digest")}', file=out)
    return 0
