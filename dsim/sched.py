"""Deterministic baton-passing scheduler, virtual clock and patched threading/time primitives.

Every thread of the system under test runs as a real OS thread that only moves while it holds the baton.
Which thread gets the baton next is decided from one seeded PRNG at every synchronisation point (and,
optionally, at Python line granularity through sys.monitoring). Virtual time only advances when nothing is
runnable.

`install()` must be called before sdc11073 (or anything that does ``from threading import Lock``) is imported.
With no simulation active (``SCHED is None``) all replacements delegate to the real primitives.
"""
from __future__ import annotations

import _thread
import hashlib
import os
import random
import sys
import threading
import time as _time
import traceback

_real_allocate = _thread.allocate_lock
_RealThread = threading.Thread
_RealRLock = threading.RLock
_real_time = _time.time
_real_sleep = _time.sleep
_real_monotonic = _time.monotonic
_real_perf = _time.perf_counter
_real_time_ns = _time.time_ns
_real_monotonic_ns = _time.monotonic_ns
_real_perf_ns = _time.perf_counter_ns

EPOCH0 = 1_700_000_000.0  # virtual wall clock at virtual monotonic 0

SCHED: 'Scheduler | None' = None  # the active scheduler, if any


class SimAbort(BaseException):
    """Raised inside a simulated thread when the run is being torn down."""


class HarnessError(Exception):
    """deadlock / livelock / internal problem; never a property violation."""

    def __init__(self, kind, detail=''):
        super().__init__(f'{kind}: {detail}')
        self.kind = kind
        self.detail = detail


class Task:
    __slots__ = ('name', 'idx', 'baton', 'blocked_on', 'deadline', 'done', 'timed_out', 'prio', 'thread',
                 'settling', 'ident', 'nopreempt', 'exc', 'node', 'stalled')

    def __init__(self, name, idx):
        self.name = name
        self.idx = idx
        self.baton = _real_allocate()
        self.baton.acquire()
        self.blocked_on = None
        self.deadline = None
        self.done = False
        self.timed_out = False
        self.prio = 0.0
        self.thread = None
        self.settling = False
        self.stalled = False  # inside an injected stall (see Scheduler._stall)
        self.ident = None
        self.nopreempt = 0
        self.exc = None
        self.node = None  # simulated host (ip) this task belongs to; inherited by spawned threads

    def __repr__(self):
        return f'<Task {self.name} blocked_on={self.blocked_on!r} deadline={self.deadline} done={self.done}>'


class Scheduler:
    """One instance per simulated run."""

    def __init__(self, seed: int, strategy: str = 'random', p_switch: float = 0.2, line_p: float = 0.0,
                 max_steps: int = 2_000_000, max_virtual: float = 3600.0, pct_depth: int = 2,
                 pct_horizon: int = 3000, log_path: str | None = None):
        self.seed = seed
        self.rng = random.Random(seed)
        self.strategy = strategy
        self.p_switch = p_switch
        self.line_p = line_p
        self.max_steps = max_steps
        self.max_virtual = max_virtual
        self.tasks: list[Task] = []
        self.current: Task | None = None
        self.now = 0.0
        self.wall_skew = 0.0
        self.steps = 0
        self.switches = 0
        self.preemptions = 0  # switches at non-blocking points (another task was chosen although we could go on)
        self.line_yields = 0
        self.time_jumps = 0
        self.h = hashlib.blake2b(digest_size=12)
        self.by_ident: dict[int, Task] = {}
        self.counter = 0
        self.escaped: list[tuple[str, str, str]] = []
        self.ring: list[str] = []
        self.kind_counts: dict[str, int] = {}
        self.timers: list = []  # (time, seq, fn) callbacks executed by the scheduler when time is reached
        self._timer_seq = 0
        self.aborted = None
        self.on_abort = None
        self._logf = open(log_path, 'w') if log_path else None
        self.pct_points = set()
        if strategy == 'pct':
            self.pct_points = {self.rng.randrange(1, pct_horizon) for _ in range(pct_depth)}
        self._pct_low = 0.0
        self.idle_hooks = []  # callables returning True if external work is still pending (used by settle)
        self.p_stall = 0.0  # fault: a task is descheduled for 1-100 virtual ms at a scheduling point (slow / stalled thread)
        self.stalls = 0
        self.stall_locks = {}  # lock label -> (probability, durations): targeted stall right before acquiring that lock
        self.stall_after_locks = {}  # lock label -> (probability, durations): targeted stall right after releasing it
        self.line_hot = {}  # function name -> (probability per line, durations): stall inside these functions (line events)

    # ------------------------------------------------------------------ bookkeeping
    def reseed(self, *key):
        """Re-derive the scheduling stream (done at operation boundaries so that removing one operation during
        minimisation does not shift the schedule of the others)."""
        hh = hashlib.blake2b(repr((self.seed,) + key).encode(), digest_size=8).digest()
        self.rng = random.Random(int.from_bytes(hh, 'big'))

    def log(self, kind, label=''):
        self.steps += 1
        cur = self.current
        line = f'{self.steps}|{cur.name if cur else "-"}|{kind}|{label}'
        self.h.update(line.encode())
        self.h.update(b'\n')
        self.kind_counts[kind] = self.kind_counts.get(kind, 0) + 1
        r = self.ring
        r.append(line)
        if len(r) > 400:
            del r[:200]
        if self._logf is not None:
            self._logf.write(f'{line}|t={self.now:.6f}\n')
        if self.steps > self.max_steps:
            self.abort('LIVELOCK', f'step cap {self.max_steps} reached')

    def note(self, text):
        """fold harness-level information (message lengths, verdicts) into the digest without a scheduling step"""
        self.h.update(b'#')
        self.h.update(text.encode() if isinstance(text, str) else text)
        if self._logf is not None:
            self._logf.write(f'# {text}\n')

    def digest(self):
        return self.h.hexdigest()

    def new_label(self, prefix):
        self.counter += 1
        return f'{prefix}{self.counter}'

    def register_main(self, name='main'):
        t = Task(name, 0)
        t.prio = 1.0
        self.tasks.append(t)
        self.current = t
        t.ident = _thread.get_ident()
        self.by_ident[t.ident] = t
        return t

    def me(self):
        return self.by_ident.get(_thread.get_ident())

    def abort(self, kind, detail=''):
        self.aborted = (kind, detail)
        if self.on_abort is not None:
            self.on_abort(kind, detail)  # normally does not return (os._exit)
        raise HarnessError(kind, detail)

    def stacks(self, limit=12, only_forever=False):
        out = []
        frames = sys._current_frames()
        for t in self.tasks:
            if t.done:
                continue
            if only_forever and (t.blocked_on is None or t.deadline is not None):
                continue
            fr = frames.get(t.ident)
            st = ''.join(traceback.format_stack(fr, limit=limit)) if fr is not None else ''
            out.append(f'--- {t!r}\n{st}')
        return '\n'.join(out)

    # ------------------------------------------------------------------ choosing
    def _runnable(self):
        return [t for t in self.tasks if not t.done and t.blocked_on is None and not t.settling]

    def _choose(self, cands):
        if len(cands) == 1:
            return cands[0]
        if self.strategy == 'pct':
            return max(cands, key=lambda t: (t.prio, -t.idx))
        return cands[self.rng.randrange(len(cands))]

    def _switch_to(self, nxt):
        cur = self.current
        if nxt is cur:
            return
        self.switches += 1
        self.current = nxt
        nxt.baton.release()
        if not cur.done:
            cur.baton.acquire()
            if self.aborted is not None:
                raise SimAbort

    def _fire_due(self):
        """wake tasks and run timer callbacks that are due at self.now"""
        woke = False
        for t in self.tasks:
            if not t.done and t.deadline is not None and t.deadline <= self.now:
                t.blocked_on = None
                t.deadline = None
                t.timed_out = True
                woke = True
        while self.timers and self.timers[0][0] <= self.now:
            _, _, fn = self.timers.pop(0)
            fn()
            woke = True
        return woke

    def _pick_and_switch(self):
        """Current task cannot continue (blocked or finished): choose who runs, advancing time if needed."""
        while True:
            cands = self._runnable()
            if cands:
                self._switch_to(self._choose(cands))
                return
            settlers = [t for t in self.tasks if t.settling and not t.done]
            if settlers and not any(t.stalled for t in self.tasks if not t.done):
                t = settlers[0]
                t.settling = False
                self._switch_to(t)
                return
            nxt = None
            for t in self.tasks:
                if not t.done and t.deadline is not None and (nxt is None or t.deadline < nxt):
                    nxt = t.deadline
            if self.timers and (nxt is None or self.timers[0][0] < nxt):
                nxt = self.timers[0][0]
            if nxt is None:
                self.abort('DEADLOCK', self.stacks())
            if nxt > self.now:
                self.now = nxt
                self.time_jumps += 1
                if self.now > self.max_virtual:
                    self.abort('VTIME', f'virtual time cap {self.max_virtual} reached')
            self._fire_due()

    # ------------------------------------------------------------------ API for primitives
    def yield_point(self, kind, label=''):
        """non-blocking scheduling point: the scheduler may switch to another runnable task"""
        cur = self.current
        self.log(kind, label)
        if cur.nopreempt or len(self.tasks) < 2:
            return
        if self.p_stall and self.rng.random() < self.p_stall:
            self._stall(self.rng.choice((0.001, 0.004, 0.02, 0.1)))
            return
        if self.strategy == 'pct':
            if self.steps in self.pct_points:
                self._pct_low -= 1.0
                cur.prio = self._pct_low
            cands = self._runnable()
            if len(cands) > 1:
                nxt = self._choose(cands)
                if nxt is not cur:
                    self.preemptions += 1
                    self._switch_to(nxt)
            return
        if self.rng.random() < self.p_switch:
            cands = self._runnable()
            if len(cands) > 1:
                nxt = cands[self.rng.randrange(len(cands))]
                if nxt is not cur:
                    self.preemptions += 1
                    self._switch_to(nxt)

    def block(self, on, timeout=None, kind='block', label=''):
        """Block the current task until wake(on) or until the virtual timeout elapses. Returns False on timeout."""
        me = self.current
        if me.nopreempt:
            self.abort('INTERNAL', f'blocking call ({kind}) inside no_preempt section\n' + ''.join(traceback.format_stack(limit=15)))
        self.log(kind, label or getattr(on, 'label', ''))
        me.blocked_on = on
        me.timed_out = False
        me.deadline = None if timeout is None else self.now + max(float(timeout), 0.0)
        self._pick_and_switch()
        return not me.timed_out

    def wake(self, on, n=None):
        cnt = 0
        for t in self.tasks:
            if t.blocked_on is on and not t.done:
                t.blocked_on = None
                t.deadline = None
                cnt += 1
                if n is not None and cnt >= n:
                    break
        return cnt

    def call_at(self, when, fn):
        self._timer_seq += 1
        self.timers.append((when, self._timer_seq, fn))
        self.timers.sort(key=lambda x: (x[0], x[1]))

    def call_later(self, delay, fn):
        self.call_at(self.now + delay, fn)

    def sleep(self, sec):
        self.block(object(), sec, 'sleep', f'{sec:.6g}')

    def _stall(self, dur, label=''):
        """the current task is descheduled for dur virtual seconds (fault). A stalled task is in the middle of
        something: settle() does not regard the system as quiescent while one exists."""
        cur = self.current
        self.stalls += 1
        cur.stalled = True
        try:
            self.block(object(), dur, 'stall', label)
        finally:
            cur.stalled = False

    def stall_after(self, lock, p, durations=(0.002, 0.01)):
        """fault placement: a task that has just released <lock> is descheduled with probability p (the window of
        'read under the lock, use after it was released')"""
        self.stall_after_locks[lock.label] = (p, tuple(durations))

    def stall_before(self, lock, p, durations=(0.002, 0.01)):
        """fault placement: a task that is about to acquire <lock> is descheduled first with probability p (the classic
        window of check-then-lock races)"""
        self.stall_locks[lock.label] = (p, tuple(durations))

    def settle(self, max_virtual=5.0, quantum=0.005):
        """Block the calling (driver) task until no other task is runnable at the current virtual time and no
        idle hook reports pending external work. Returns True if such a quiescent point was reached before
        max_virtual virtual seconds passed."""
        me = self.current
        end = self.now + max_virtual
        while True:
            self.log('settle')
            me.settling = True
            self._pick_and_switch()
            me.settling = False
            if not any(h() for h in self.idle_hooks):
                return True
            if self.now >= end:
                return False
            self.sleep(quantum)

    def task_exit(self):
        me = self.current
        me.done = True
        self.log('exit')
        self.wake(me)
        try:
            self._pick_and_switch()
        except HarnessError:
            pass

    class _NoPreempt:
        def __init__(self, s):
            self.s = s

        def __enter__(self):
            t = self.s.me()
            if t is not None:
                t.nopreempt += 1
            return self

        def __exit__(self, *a):
            t = self.s.me()
            if t is not None:
                t.nopreempt -= 1
            return False

    def no_preempt(self):
        """context manager: no scheduling switch inside (for oracle code that reads shared state)"""
        return Scheduler._NoPreempt(self)


# ---------------------------------------------------------------------- primitives
class SimLock:
    """replacement for threading.Lock / _thread.allocate_lock"""

    def __init__(self):
        self._owner = None
        self._real = None
        s = SCHED
        self.label = s.new_label('L') if s is not None else 'L?'

    def acquire(self, blocking=True, timeout=-1):
        s = SCHED
        if s is None or s.me() is None:
            if self._real is None:
                self._real = _real_allocate()
            return self._real.acquire(blocking, timeout)
        s.yield_point('acq', self.label)
        if s.stall_locks and self.label in s.stall_locks and not s.current.nopreempt and len(s.tasks) > 1:
            p, durs = s.stall_locks[self.label]
            if s.rng.random() < p:
                s._stall(s.rng.choice(durs), self.label)
        if self._owner is None:
            self._owner = s.current
            return True
        if not blocking:
            return False
        deadline = None if (timeout is None or timeout < 0) else s.now + timeout
        while self._owner is not None:
            rem = None if deadline is None else deadline - s.now
            if rem is not None and rem <= 0:
                return False
            s.block(self, rem, 'acq-wait', self.label)
        self._owner = s.current
        return True

    def release(self):
        s = SCHED
        if s is None or s.me() is None:
            if self._real is None:
                raise RuntimeError('release unlocked lock')
            return self._real.release()
        if self._owner is None:
            raise RuntimeError('release unlocked lock')
        self._owner = None
        s.wake(self)
        s.yield_point('rel', self.label)
        if s.stall_after_locks and self.label in s.stall_after_locks and not s.current.nopreempt and len(s.tasks) > 1:
            p, durs = s.stall_after_locks[self.label]
            if s.rng.random() < p:
                s._stall(s.rng.choice(durs), self.label)

    def locked(self):
        if self._real is not None and SCHED is None:
            return self._real.locked()
        return self._owner is not None

    def _at_fork_reinit(self):
        self._owner = None
        self._real = None

    __enter__ = acquire

    def __exit__(self, *a):
        self.release()

    def __repr__(self):
        return f'<SimLock {self.label} owner={self._owner.name if self._owner else None}>'


class SimRLock:
    def __init__(self):
        self._lock = SimLock()
        self._owner = None
        self._count = 0

    @property
    def label(self):
        return self._lock.label

    def acquire(self, blocking=True, timeout=-1):
        me = _thread.get_ident()
        if self._owner == me:
            self._count += 1
            return True
        rc = self._lock.acquire(blocking, timeout)
        if rc:
            self._owner = me
            self._count = 1
        return rc

    def release(self):
        if self._owner != _thread.get_ident():
            raise RuntimeError('cannot release un-acquired lock')
        self._count -= 1
        if not self._count:
            self._owner = None
            self._lock.release()

    __enter__ = acquire

    def __exit__(self, *a):
        self.release()

    def _is_owned(self):
        return self._owner == _thread.get_ident()

    def _release_save(self):
        c, o = self._count, self._owner
        self._count = 0
        self._owner = None
        self._lock.release()
        return (c, o)

    def _acquire_restore(self, st):
        self._lock.acquire()
        self._count, self._owner = st

    def _at_fork_reinit(self):
        self._lock._at_fork_reinit()
        self._owner = None
        self._count = 0

    def locked(self):
        return self._lock.locked()

    def __repr__(self):
        return f'<SimRLock {self._lock.label} count={self._count}>'


class SimThread(_RealThread):
    """threading.Thread whose run() executes under the baton"""

    _sim_started = False

    def start(self):
        s = SCHED
        if s is None or s.me() is None:
            return super().start()
        if self._sim_started:
            raise RuntimeError('threads can only be started once')
        idx = len(s.tasks)
        t = Task(f'T{idx}:{self.name}', idx)
        t.prio = s.rng.random()
        t.thread = self
        t.node = s.current.node
        self._task = t
        s.tasks.append(t)
        self._sim_started = True
        s.log('spawn', t.name)
        _thread.start_new_thread(self._sim_boot, ())
        s.yield_point('spawned')

    def _sim_boot(self):
        s = SCHED
        t = self._task
        t.baton.acquire()
        if s.aborted is not None:
            return
        ident = _thread.get_ident()
        t.ident = ident
        s.by_ident[ident] = t
        threading._active[ident] = self
        self._ident = ident
        try:
            self.run()
        except SimAbort:
            return
        except SystemExit:
            pass
        except BaseException as e:  # noqa: BLE001
            t.exc = e
            s.escaped.append((t.name, repr(e), traceback.format_exc(limit=12)))
        finally:
            threading._active.pop(ident, None)
        try:
            s.task_exit()
        except (SimAbort, HarnessError):
            pass

    def join(self, timeout=None):
        s = SCHED
        if not self._sim_started:
            if s is not None and s.me() is not None:
                raise RuntimeError('cannot join thread before it is started')
            return super().join(timeout)
        if s is None:
            return None
        if not self._task.done:
            s.block(self._task, timeout, 'join', self._task.name)
        return None

    def is_alive(self):
        if self._sim_started:
            return not self._task.done
        return super().is_alive()

    @property
    def ident(self):
        if self._sim_started:
            return self._task.ident
        return self._ident


# ---------------------------------------------------------------------- clock
def sim_sleep(sec):
    s = SCHED
    if s is None or s.me() is None:
        return _real_sleep(sec)
    if sec < 0:
        raise ValueError('sleep length must be non-negative')
    s.block(object(), sec, 'sleep', f'{sec:.6g}')
    return None


def sim_time():
    s = SCHED
    return _real_time() if s is None else EPOCH0 + s.now + s.wall_skew


def sim_monotonic():
    s = SCHED
    return _real_monotonic() if s is None else s.now


def sim_perf_counter():
    s = SCHED
    return _real_perf() if s is None else s.now


def sim_time_ns():
    s = SCHED
    return _real_time_ns() if s is None else int((EPOCH0 + s.now + s.wall_skew) * 1e9)


def sim_monotonic_ns():
    s = SCHED
    return _real_monotonic_ns() if s is None else int(s.now * 1e9)


def sim_perf_counter_ns():
    s = SCHED
    return _real_perf_ns() if s is None else int(s.now * 1e9)


# ---------------------------------------------------------------------- line-level pre-emption
_MON_TOOL = 3
_LINE_TRACE = open(os.environ['DSIM_LINETRACE'], 'w') if os.environ.get('DSIM_LINETRACE') else None  # debug aid
_line_allow: tuple[str, ...] = ()
_line_installed = False


def _on_line(code, line):
    s = SCHED
    if s is None:
        return None
    fn = code.co_filename
    for frag in _line_allow:
        if frag in fn:
            break
    else:
        return sys.monitoring.DISABLE
    cur = s.current
    if cur is None or cur.nopreempt or cur.ident != _thread.get_ident():
        return None
    if _LINE_TRACE is not None:
        _LINE_TRACE.write(f'{s.steps} {fn.rsplit("/", 1)[-1]}:{code.co_name}:{line}\n')
    if s.line_hot and code.co_name in s.line_hot:
        # fault placement at a code site: inside the named functions a thread is descheduled with the given probability
        # per executed line (reaches windows that no lock marks, e.g. an unsynchronised iteration)
        p, durs = s.line_hot[code.co_name]
        if s.rng.random() < p:
            s.line_yields += 1
            s._stall(s.rng.choice(durs), f'{code.co_name}:{line}')
            return None
    if s.line_p > 0 and s.rng.random() < s.line_p:
        s.line_yields += 1
        s.yield_point('line', f'{code.co_name}:{line}')
    return None


def enable_line_preemption(allow: tuple[str, ...]):
    """allow: filename fragments (e.g. 'sdc11073/mdib/') whose lines are pre-emption points with prob s.line_p"""
    global _line_allow, _line_installed
    _line_allow = tuple(allow)
    mon = sys.monitoring
    if not _line_installed:
        mon.use_tool_id(_MON_TOOL, 'dsim')
        mon.register_callback(_MON_TOOL, mon.events.LINE, _on_line)
        _line_installed = True
    mon.set_events(_MON_TOOL, mon.events.LINE)
    mon.restart_events()


def disable_line_preemption():
    if _line_installed:
        sys.monitoring.set_events(_MON_TOOL, 0)


# ---------------------------------------------------------------------- install / run
_installed = False


def install():
    """Replace threading / time primitives. Call before importing the system under test."""
    global _installed
    if _installed:
        return
    _installed = True
    import logging  # noqa: F401  (its module-level lock must be created with the real RLock)
    import queue
    import socketserver
    import types
    # logging keeps real locks: give it a private view of `threading` with the original factories
    shim = types.ModuleType('threading_real_view')
    shim.__dict__.update(threading.__dict__)
    logging.threading = shim
    threading.Lock = SimLock
    threading._allocate_lock = SimLock
    threading.RLock = SimRLock
    threading._CRLock = None
    threading._PyRLock = SimRLock
    threading.Thread = SimThread
    _time.sleep = sim_sleep
    _time.time = sim_time
    _time.monotonic = sim_monotonic
    _time.perf_counter = sim_perf_counter
    _time.time_ns = sim_time_ns
    _time.monotonic_ns = sim_monotonic_ns
    _time.perf_counter_ns = sim_perf_counter_ns
    queue.time = sim_monotonic
    threading._time = sim_monotonic
    socketserver.time = sim_monotonic


def run(sched: Scheduler, body):
    """Run body(sched) as the driver task 'main' under the scheduler. Returns body's result."""
    global SCHED
    SCHED = sched
    sched.register_main()
    try:
        return body(sched)
    finally:
        SCHED = None
