"""Type-directed value generation for BICEPS containers, a JSON encoding of such values (so that plans are concrete
and replayable), and nested-path access.

The generator walks the declarative `_props` metadata of the library's container / data-type classes and produces
a value per property kind; candidates are checked against the bundled XSD (harness-side lxml schema) by the caller.
"""
from __future__ import annotations

import enum
import random
from decimal import Decimal

from lxml import etree

STR_POOL = ['a', 'Ab c', 'x-1', 'ÄÖü ß', '雪', 'O\'Neil', 'a&b<c>', '  lead', 'é', 'z' * 40, '0', 'true', '%2F', 'q"q']
LANG_POOL = ['en', 'en-US', 'de', 'fr']
URI_POOL = ['urn:oid:1.2.3', 'http://example.org/a', 'urn:uuid:12345678-1234-1234-1234-123456789abc', 'sdc.ctxt.loc.detail']
TZ_POOL = ['CST6CDT,M3.2.0/2:00:00,M11.1.0/2:00:00', 'UTC0', 'CET-1CEST,M3.5.0,M10.5.0/3']


def _mods():
    from sdc11073.xml_types import xml_structure as xs, pm_types, msg_types
    return xs, pm_types, msg_types


def find_class(name):
    xs, pm_types, msg_types = _mods()
    from sdc11073.mdib import statecontainers, descriptorcontainers
    for m in (pm_types, msg_types, statecontainers, descriptorcontainers):
        c = getattr(m, name, None)
        if c is not None:
            return c
    raise KeyError(name)


def new_instance(cls):
    """construct without knowing constructor arguments (several pm_types demand positional arguments)"""
    try:
        return cls()
    except TypeError:
        pass
    try:
        # the plain constructor with simple values for its mandatory arguments: constructor defaults (e.g. mutable
        # default arguments) are part of what an application gets
        import inspect
        req = [p_ for n_, p_ in list(inspect.signature(cls.__init__).parameters.items())[1:]
               if p_.default is inspect.Parameter.empty and p_.kind in (p_.POSITIONAL_ONLY, p_.POSITIONAL_OR_KEYWORD)]
        if req and len(req) <= 3:
            return cls(*['x1'] * len(req))
    except Exception:  # noqa: BLE001
        pass
    try:
        raise TypeError
    except TypeError:
        from sdc11073.xml_types.basetypes import XMLTypeBase
        obj = cls.__new__(cls)
        XMLTypeBase.__init__(obj)
        return obj


# ------------------------------------------------------------------------------------------ encoding
def enc(v):
    if v is None or isinstance(v, bool):
        return v
    if isinstance(v, enum.Enum):
        return {'$e': v.__class__.__name__, 'v': v.value}
    if isinstance(v, (int, str, float)):
        return v
    if isinstance(v, Decimal):
        return {'$d': str(v)}
    if isinstance(v, etree.QName):
        return {'$q': v.text}
    if isinstance(v, (list, tuple)):
        return [enc(x) for x in v]
    if isinstance(v, etree._Element):
        return {'$x': etree.tostring(v).decode()}
    if hasattr(v, 'sorted_container_properties'):
        f = {}
        for name, prop in v.sorted_container_properties():
            try:
                val = prop.get_actual_value(v)
            except Exception:  # noqa: BLE001
                val = None
            if val is None or val == []:
                continue
            f[name] = enc(val)
        return {'$c': v.__class__.__name__, 'f': f}
    if v.__class__.__name__ == 'XsdDateInformation':
        return {'$dob': str(v)}
    raise TypeError(f'cannot encode {v!r}')


def dec(j):
    if isinstance(j, list):
        return [dec(x) for x in j]
    if not isinstance(j, dict):
        return j
    if '$d' in j:
        return Decimal(j['$d'])
    if '$e' in j:
        return find_class(j['$e'])(j['v'])
    if '$q' in j:
        return etree.QName(j['$q'])
    if '$x' in j:
        return etree.fromstring(j['$x'])
    if '$dob' in j:
        from sdc11073.xml_types import isoduration
        return isoduration.parse_date_time(j['$dob'])
    if '$c' in j:
        cls = find_class(j['$c'])
        obj = new_instance(cls)
        for k, val in j['f'].items():
            setattr(obj, k, dec(val))
        return obj
    raise TypeError(f'cannot decode {j!r}')


# ------------------------------------------------------------------------------------------ paths
def get_path(obj, path):
    for part in path:
        if obj is None:
            return None
        if isinstance(part, int):
            obj = obj[part] if -len(obj) <= part < len(obj) else None
        else:
            obj = getattr(obj, part)
    return obj


def set_path(obj, path, value):
    """set obj.<path> = value; intermediate None sub-elements are created with their default constructor"""
    xs, _, _ = _mods()
    for i, part in enumerate(path[:-1]):
        if isinstance(part, int):
            obj = obj[part]
            continue
        nxt = getattr(obj, part)
        if nxt is None:
            prop = getattr(obj.__class__, part)
            nxt = new_instance(prop.value_class)
            setattr(obj, part, nxt)
        obj = nxt
    last = path[-1]
    if isinstance(last, int):
        obj[last] = value
    else:
        setattr(obj, last, value)


# ------------------------------------------------------------------------------------------ generation
_SKIP_NAMES = {'Handle', 'DescriptorHandle', 'DescriptorVersion', 'StateVersion', 'BindingMdibVersion',
               'UnbindingMdibVersion', 'ContextAssociation', 'BindingStartTime', 'BindingEndTime',
               'OperationTarget', 'ConditionSignaled', 'Source', 'Entries', 'Operations',
               'PresentPhysiologicalAlarmConditions', 'PresentTechnicalAlarmConditions', 'InvocationRequested',
               'InvocationRequired', 'ExtExtension', 'Extension'}


def _gen_decimal(rng):
    k = rng.random()
    if k < 0.2:
        return Decimal(rng.randint(-5, 300))
    if k < 0.4:
        return Decimal(rng.randint(-10 ** 6, 10 ** 6)) / Decimal(10 ** rng.randint(0, 6))
    if k < 0.5:
        return Decimal('0')
    return Decimal(str(round(rng.uniform(-1000, 1000), rng.randint(0, 4))))


def _gen_str(rng):
    return rng.choice(STR_POOL) if rng.random() < 0.6 else 's%d' % rng.randint(0, 9999)


def _gen_ts(rng):
    return (1_600_000_000_000 + rng.randint(0, 200_000_000_000)) / 1000.0


def gen_for_prop(prop, rng: random.Random, depth=0):
    """return (ok, value) for a property object; ok False = property kind not generated"""
    xs, pm_types, _ = _mods()
    from sdc11073.xml_types import dataconverters as dcv
    conv = getattr(prop, '_converter', None)
    if isinstance(prop, (xs.ExtensionNodeProperty, xs.CurrentTimestampAttributeProperty, xs.AnyEtreeNodeProperty,
                         xs.AnyEtreeNodeListProperty, xs.QNameAttributeProperty, xs.NodeTextQNameProperty,
                         xs.NodeTextQNameListProperty, xs.NodeEnumQNameProperty)):
        return False, None
    if isinstance(prop, (xs.HandleAttributeProperty, xs.HandleRefAttributeProperty, xs.VersionCounterAttributeProperty)):
        return False, None
    if isinstance(prop, xs.DateOfBirthProperty):
        s = rng.choice(['1980', '1999-12', '2001-02-28', '1975-06-01T12:30:00Z', '2010-10-10T01:02:03.5+02:00'])
        from sdc11073.xml_types import isoduration
        return True, isoduration.parse_date_time(s)
    if isinstance(conv, dcv.EnumConverter):
        return True, rng.choice(list(conv._klass))
    if isinstance(prop, xs.TimeZoneAttributeProperty):
        return True, rng.choice(TZ_POOL)
    if isinstance(prop, xs.AnyURIAttributeProperty):
        return True, rng.choice(URI_POOL)
    if isinstance(prop, xs.LocalizedTextRefAttributeProperty):
        return True, 'ref%d' % rng.randint(0, 20)
    if isinstance(prop, (xs.CodeIdentifierAttributeProperty, xs.SymbolicCodeNameAttributeProperty)):
        return True, 'C%d' % rng.randint(1, 99999)
    if isinstance(prop, xs.QualityIndicatorAttributeProperty):
        return True, Decimal(rng.randint(0, 100)) / Decimal(100)
    if isinstance(prop, (xs.DecimalAttributeProperty, xs.NodeDecimalProperty)):
        return True, _gen_decimal(rng)
    if isinstance(prop, xs.DecimalListAttributeProperty):
        return True, [_gen_decimal(rng) for _ in range(rng.randint(0, 5))]
    if isinstance(prop, xs.TimestampAttributeProperty):
        return True, _gen_ts(rng)
    if isinstance(prop, (xs.DurationAttributeProperty, xs.NodeDurationProperty)):
        return True, rng.choice([0.0, 0.5, 1.0, 2.5, 60.0, 3600.0, 86400.0 * 2 + 0.25])
    if isinstance(prop, xs.UnsignedIntAttributeProperty):
        return True, rng.randint(0, 100000)
    if isinstance(prop, (xs.IntegerAttributeProperty, xs.NodeIntProperty)):
        return True, rng.randint(-5, 1000)
    if isinstance(prop, xs.BooleanAttributeProperty):
        return True, rng.random() < 0.5
    if isinstance(prop, xs._StringAttributeListBase):
        return False, None  # reference lists
    if isinstance(prop, xs.StringAttributeProperty):
        if getattr(prop, '_attribute_name', '') in ('Lang',) or str(getattr(prop, '_attribute_name', '')).endswith('lang'):
            return True, rng.choice(LANG_POOL)
        return True, _gen_str(rng)
    if isinstance(prop, xs.NodeEnumTextProperty):
        return True, rng.choice(list(conv._klass))
    if isinstance(prop, (xs.NodeStringProperty, xs.NodeTextProperty)):
        if isinstance(conv, type) and issubclass(conv, dcv.StringConverter) or conv is dcv.StringConverter:
            return True, _gen_str(rng)
        return False, None
    if isinstance(prop, xs.SubElementStringListProperty):
        return True, [_gen_str(rng) for _ in range(rng.randint(0, 3))]
    if isinstance(prop, xs.SubElementWithSubElementListProperty):
        return False, None
    if isinstance(prop, (xs.SubElementListProperty,)):
        if depth > 2:
            return True, []
        return True, [gen_instance(prop.value_class, rng, depth + 1) for _ in range(rng.randint(0, 2))]
    if isinstance(prop, xs.SubElementProperty):
        if depth > 2:
            return False, None
        if prop.is_optional and rng.random() < 0.15:
            return True, None
        return True, gen_instance(prop.value_class, rng, depth + 1)
    return False, None


def gen_instance(cls, rng, depth=0):
    """instance of an XMLTypeBase class with mandatory members set and a random subset of the optional ones"""
    obj = new_instance(cls)
    for name, prop in obj.sorted_container_properties():
        if name in _SKIP_NAMES and name != 'Extension':
            continue
        mandatory = not prop.is_optional
        cur = None
        try:
            cur = prop.get_actual_value(obj)
        except Exception:  # noqa: BLE001
            pass
        if mandatory and cur not in (None, []):
            if rng.random() < 0.5:
                continue
        if not mandatory and rng.random() < 0.6:
            continue
        ok, v = gen_for_prop(prop, rng, depth)
        if ok and not (mandatory and v is None):
            setattr(obj, name, v)
    return obj


def candidate_paths(obj, rng, max_depth=3):
    """enumerate (path, prop) pairs of settable leaves / sub-structures reachable from obj"""
    xs, _, _ = _mods()
    out = []

    def rec(o, path, depth):
        for name, prop in o.sorted_container_properties():
            if name in _SKIP_NAMES:
                continue
            out.append((path + [name], prop))
            if depth >= max_depth:
                continue
            if isinstance(prop, xs.SubElementProperty) and not isinstance(prop, xs.SubElementWithSubElementListProperty):
                sub = getattr(o, name)
                if sub is not None and hasattr(sub, 'sorted_container_properties'):
                    rec(sub, path + [name], depth + 1)
            elif isinstance(prop, xs.SubElementListProperty):
                lst = getattr(o, name) or []
                for i, sub in enumerate(lst[:2]):
                    if hasattr(sub, 'sorted_container_properties'):
                        rec(sub, path + [name, i], depth + 1)

    rec(obj, [], 0)
    return out


def gen_mutation(obj, rng, prefer_nested=0.5):
    """choose a path inside obj and a new value for it -> (path, encoded value) or None"""
    cands = candidate_paths(obj, rng)
    rng.shuffle(cands)
    nested = [c for c in cands if len(c[0]) > 1]
    order = (nested + cands) if (nested and rng.random() < prefer_nested) else cands
    for path, prop in order[:25]:
        ok, v = gen_for_prop(prop, rng, depth=len(path))
        if not ok:
            continue
        try:
            return path, enc(v)
        except TypeError:
            continue
    return None
