"""MDIB workload: stateful generation of provider transactions of every kind (plans are concrete JSON) and their
execution through the classic and the entity transaction interfaces.

Generation keeps a *model MDIB* (a real ProviderMdib loaded from the same file) and applies every generated
operation to it, so that later operations refer to objects that exist; candidate values are validated against the
bundled XSD before they are put into the plan. Under concurrent writers the execution order may differ from the
generation order: an operation whose precondition no longer holds is rejected by the API and counted as such.
"""
from __future__ import annotations

import copy
import random

from . import values as V
from . import xsd

MDIB_FILES = {'tns': '/repo/tests/mdib_tns.xml', 'two': '/repo/tests/mdib_two_mds.xml'}

STATE_TT = ('metric', 'alert', 'component', 'operational', 'rt')

CREATABLE = {
    # localname of descriptor type -> required parent type localnames
    'NumericMetricDescriptor': ('ChannelDescriptor',),
    'StringMetricDescriptor': ('ChannelDescriptor',),
    'EnumStringMetricDescriptor': ('ChannelDescriptor',),
    'ChannelDescriptor': ('VmdDescriptor',),
    'VmdDescriptor': ('MdsDescriptor',),
    'AlertConditionDescriptor': ('AlertSystemDescriptor',),
    'LimitAlertConditionDescriptor': ('AlertSystemDescriptor',),
    'AlertSignalDescriptor': ('AlertSystemDescriptor',),
    'BatteryDescriptor': ('MdsDescriptor',),
    'PatientContextDescriptor': ('SystemContextDescriptor',),
    'LocationContextDescriptor': ('SystemContextDescriptor',),
    'EnsembleContextDescriptor': ('SystemContextDescriptor',),
}

DELETABLE = ('NumericMetricDescriptor', 'StringMetricDescriptor', 'EnumStringMetricDescriptor', 'ChannelDescriptor',
             'VmdDescriptor', 'AlertConditionDescriptor', 'AlertSignalDescriptor', 'LimitAlertConditionDescriptor',
             'BatteryDescriptor', 'RealTimeSampleArrayMetricDescriptor', 'PatientContextDescriptor',
             'LocationContextDescriptor', 'EnsembleContextDescriptor', 'WorkflowContextDescriptor',
             'OperatorContextDescriptor', 'MeansContextDescriptor')

_mdib_bytes = {}


class OpRejected(Exception):
    """the library's API rejected the operation (precondition failed); not a violation by itself"""


class InjectedCrash(Exception):
    """raised by the harness inside a transaction body (crash point)"""


def load_mdib(which='tns'):
    from sdc11073.mdib import ProviderMdib
    data = _mdib_bytes.get(which)
    if data is None:
        with open(MDIB_FILES[which], 'rb') as f:
            data = f.read()
        _mdib_bytes[which] = data
    return ProviderMdib.from_string(data)


def tt_of_state(st):
    if st.is_realtime_sample_array_metric_state:
        return 'rt'
    if st.is_metric_state:
        return 'metric'
    if st.is_alert_state:
        return 'alert'
    if st.is_component_state:
        return 'component'
    if st.is_operational_state:
        return 'operational'
    if st.is_context_state:
        return 'context'
    return None


def tr_ctx(mdib, tt):
    return {'metric': mdib.metric_state_transaction, 'alert': mdib.alert_state_transaction,
            'component': mdib.component_state_transaction, 'operational': mdib.operational_state_transaction,
            'rt': mdib.rt_sample_state_transaction, 'context': mdib.context_state_transaction,
            'descr': mdib.descriptor_transaction}[tt]()


def apply_muts(obj, muts):
    for path, ev in muts:
        try:
            V.set_path(obj, path, V.dec(ev))
        except (IndexError, AttributeError, TypeError) as ex:
            # the path no longer exists (another writer changed the object since the plan was generated)
            raise ValueError(f'mutation path {path} not applicable: {ex!r}') from ex


# =========================================================================================== generation
class Gen:
    def __init__(self, rng: random.Random, which='tns', validate=True, kinds=None):
        self.rng = rng
        self.which = which
        self.m = load_mdib(which)
        self.validate = validate
        self.n = 0
        self.kinds = kinds
        self.created = 0
        self.removed_handles = []  # (type localname, handle, parent) of deleted top descriptors for re-creation
        self.cache = {}  # handle -> entity object fetched after an earlier operation ("stale" entities the app kept)
        self.p_stale = 0.0
        self.retry = None  # copy of the operation that was aborted last (see gen_op)
        self.removed_ctx = {}  # context descriptor handle -> handles of the context states it had when it was deleted

    # ---- helpers
    def _states_by_tt(self, tt):
        return sorted([s for s in self.m.states.objects if tt_of_state(s) == tt], key=lambda s: s.DescriptorHandle)

    def _gen_state_muts(self, st, nmax=3):
        """mutations validated on a deep copy of the model state"""
        muts = []
        tmp = copy.deepcopy(st)
        for _ in range(self.rng.randint(1, nmax)):
            for _try in range(6):
                if tmp.is_metric_state and tmp.MetricValue is None and self.rng.random() < 0.8:
                    tmp.mk_metric_value()
                    trial0 = [['MetricValue'], V.enc(tmp.MetricValue)]
                    muts.append(trial0)
                mut = V.gen_mutation(tmp, self.rng)
                if mut is None:
                    continue
                trial = copy.deepcopy(tmp)
                try:
                    apply_muts(trial, [mut])
                    err = xsd.validate_state(trial, self.m.nsmapper) if self.validate else None
                except Exception:  # noqa: BLE001
                    continue
                if err is None:
                    tmp = trial
                    muts.append([mut[0], mut[1]])
                    break
        return muts

    def _gen_descr_muts(self, d, nmax=2):
        muts = []
        tmp = copy.deepcopy(d)
        # indexed attributes (C11): alert signal -> signalled condition, alert condition -> source metrics
        if d.NODETYPE.localname == 'AlertSignalDescriptor' and self.rng.random() < 0.5:
            conds = self._descr_candidates(lambda x: x.is_alert_condition_descriptor and x.parent_handle == d.parent_handle)
            if conds:
                v = self.rng.choice(conds).Handle
                muts.append([['ConditionSignaled'], v])
                tmp.ConditionSignaled = v
        if d.is_alert_condition_descriptor and self.rng.random() < 0.5:
            mets = self._descr_candidates(lambda x: x.is_metric_descriptor)
            if mets:
                v = [x.Handle for x in self.rng.sample(mets, self.rng.randint(0, min(3, len(mets))))]
                muts.append([['Source'], v])
                tmp.Source = list(v)
        for _ in range(self.rng.randint(1, nmax)):
            for _try in range(6):
                mut = V.gen_mutation(tmp, self.rng)
                if mut is None:
                    continue
                trial = copy.deepcopy(tmp)
                try:
                    apply_muts(trial, [mut])
                    err = xsd.validate_descriptor(trial, self.m.nsmapper) if self.validate else None
                except Exception:  # noqa: BLE001
                    continue
                if err is None:
                    tmp = trial
                    muts.append([mut[0], mut[1]])
                    break
        return muts

    # ---- op generators
    def gen_state_op(self, tt=None):
        rng = self.rng
        tt = tt or rng.choice(STATE_TT)
        cands = self._states_by_tt(tt)
        if not cands:
            return None
        k = 1 if (rng.random() < 0.6 or len(cands) < 2) else rng.randint(2, min(4, len(cands)))
        chosen = rng.sample(cands, min(k, len(cands)))
        items = []
        for st in chosen:
            muts = self._gen_state_muts(st)
            items.append({'h': st.DescriptorHandle, 'muts': muts})
        op = {'k': 'state', 'tt': tt, 'iface': rng.choice(['classic', 'classic', 'entity']), 'items': items}
        if self.p_stale and op['iface'] == 'entity':
            for it in items:
                if it['h'] in self.cache and rng.random() < 0.8:
                    it['stale'] = True
        return op

    def gen_context_op(self):
        rng = self.rng
        cdescr = sorted([d for d in self.m.descriptions.objects if d.is_context_descriptor], key=lambda d: d.Handle)
        if not cdescr:
            return None
        steps = []
        used = set()
        for _ in range(rng.randint(1, 3)):
            d = rng.choice(cdescr)
            existing = sorted([s for s in self.m.context_states.objects if s.DescriptorHandle == d.Handle
                               and s.Handle not in used], key=lambda s: s.Handle)
            a = rng.choice(['new', 'new', 'upd', 'upd', 'disall'])
            if a == 'upd' and not existing:
                a = 'new'
            if a == 'new':
                self.n += 1
                h = f'ctx{self.n}.{rng.randint(0, 999)}'
                old_handles = self.removed_ctx.get(d.Handle)
                if old_handles and rng.random() < 0.7:
                    # a context state handle that existed before its descriptor was deleted and created again
                    h = old_handles.pop(rng.randrange(len(old_handles)))
                    if h in self.m.context_states.handle or h in used:
                        h = f'ctx{self.n}.{rng.randint(0, 999)}'
                st = self.m.data_model.mk_state_container(d)
                st.Handle = h
                muts = self._gen_state_muts(st, 2)
                used.add(h)
                steps.append({'a': 'new', 'd': d.Handle, 'h': h, 'assoc': rng.random() < 0.5, 'muts': muts})
            elif a == 'upd':
                st = rng.choice(existing)
                used.add(st.Handle)
                muts = self._gen_state_muts(st, 2)
                assoc = rng.choice([None, None, 'Assoc', 'Dis', 'No', 'Pre'])
                steps.append({'a': 'upd', 'h': st.Handle, 'd': d.Handle, 'muts': muts, 'assoc': assoc})
            else:
                if any(s['a'] == 'disall' and s['d'] == d.Handle for s in steps):
                    continue
                steps.append({'a': 'disall', 'd': d.Handle})
        if not steps:
            return None
        iface = 'classic'
        if all(s['a'] in ('new', 'upd') for s in steps) and len({s['d'] for s in steps}) == 1 and rng.random() < 0.4:
            iface = 'entity'
        return {'k': 'context', 'iface': iface, 'steps': steps}

    def _descr_candidates(self, pred):
        return sorted([d for d in self.m.descriptions.objects if pred(d)], key=lambda d: d.Handle)

    def gen_descr_op(self):
        rng = self.rng
        m = self.m
        steps = []
        touched = set()
        force_entity = False
        nsteps = 1 if rng.random() < 0.55 else rng.randint(2, 3)
        for _ in range(nsteps):
            a = rng.choice(['update', 'update', 'update', 'create', 'create', 'delete', 'recreate', 'addstate', 'conflict'])
            if a == 'recreate' and not self.removed_handles:
                a = 'create'
            if a == 'addstate':
                # a descriptor that was created without state gets its state in a later transaction
                lacking = self._descr_candidates(
                    lambda d: d.Handle not in touched and not d.is_context_descriptor
                    and m.states.descriptor_handle.get_one(d.Handle, allow_none=True) is None)
                if not lacking:
                    a = 'update'
                else:
                    d = rng.choice(lacking)
                    st = m.data_model.mk_state_container(d)
                    touched.add(d.Handle)
                    steps.append({'a': 'addstate', 'h': d.Handle, 'state_muts': self._gen_state_muts(st, 2)})
                    continue
            if a == 'conflict':
                # (rare) the transaction deletes a sub-tree and also touches something inside it, or deletes a descriptor
                # and one of its ancestors: the first has to be refused as a whole, the second is merely redundant
                if rng.random() < 0.6:
                    a = 'update'
                else:
                    roots = self._descr_candidates(
                        lambda d: d.Handle not in touched and d.NODETYPE.localname in ('ChannelDescriptor', 'VmdDescriptor')
                        and len(m.get_all_descriptors_in_subtree(d)) > 1
                        and not any(x.Handle in touched for x in m.get_all_descriptors_in_subtree(d)))
                    if not roots:
                        a = 'update'
                    else:
                        root = rng.choice(roots)
                        inner = rng.choice([x for x in m.get_all_descriptors_in_subtree(root) if x.Handle != root.Handle])
                        if rng.random() < 0.5:
                            pair = [{'a': 'update', 'h': inner.Handle, 'muts': self._gen_descr_muts(inner), 'with_state': False,
                                     'state_muts': []}, {'a': 'delete', 'h': root.Handle}]
                        else:
                            pair = [{'a': 'delete', 'h': inner.Handle}, {'a': 'delete', 'h': root.Handle}]
                        if rng.random() < 0.5:
                            pair.reverse()
                        for x in m.get_all_descriptors_in_subtree(root):
                            touched.add(x.Handle)
                        steps.extend(pair)
                        if root.NODETYPE.localname in CREATABLE:
                            self.removed_handles.append((root.NODETYPE.localname, root.Handle, root.parent_handle))
                        continue
            if a == 'update':
                cands = self._descr_candidates(lambda d: d.Handle not in touched and not d.is_context_descriptor)
                if rng.random() < 0.12:
                    # a context descriptor itself is updated (all its context states follow with a new DescriptorVersion)
                    ctx_c = self._descr_candidates(lambda d: d.Handle not in touched and d.is_context_descriptor)
                    many = [d for d in ctx_c if len(m.context_states.descriptor_handle.get(d.Handle, [])) >= 2]
                    cands = many or ctx_c or cands
                if not cands:
                    continue
                d = rng.choice(cands)
                if self.p_stale and rng.random() < 0.5:
                    # prefer a descriptor of which the application still holds an outdated entity
                    outdated = [x for x in cands if x.Handle in self.cache
                                and self.cache[x.Handle].descriptor.DescriptorVersion != x.DescriptorVersion]
                    if outdated:
                        d = rng.choice(outdated)
                        force_entity = True
                # sometimes update parent and child in one transaction
                muts = self._gen_descr_muts(d)
                with_state = rng.random() < 0.4 and not d.is_context_descriptor
                smuts = []
                if with_state:
                    st = m.states.descriptor_handle.get_one(d.Handle, allow_none=True)
                    if st is not None:
                        smuts = self._gen_state_muts(st, 2)
                    else:
                        with_state = False
                touched.add(d.Handle)
                steps.append({'a': 'update', 'h': d.Handle, 'muts': muts, 'with_state': with_state, 'state_muts': smuts})
                if self.p_stale and d.Handle in self.cache and rng.random() < 0.8:
                    steps[-1]['stale'] = True  # only has an effect with the entity interface
                if rng.random() < 0.3:
                    rel = [x for x in cands if (x.parent_handle == d.Handle or x.Handle == d.parent_handle)
                           and x.Handle not in touched]
                    if rel:
                        d2 = rng.choice(rel)
                        touched.add(d2.Handle)
                        steps.append({'a': 'update', 'h': d2.Handle, 'muts': self._gen_descr_muts(d2),
                                      'with_state': False, 'state_muts': []})
            elif a in ('create', 'recreate'):
                if a == 'recreate':
                    tname, h, parent = self.removed_handles.pop(rng.randrange(len(self.removed_handles)))
                    if parent not in m.descriptions.handle or h in m.descriptions.handle or h in touched:
                        continue
                else:
                    tname = rng.choice([t for t in CREATABLE if not t.endswith('ContextDescriptor')])
                    updated_here = {st['h'] for st in steps if st['a'] == 'update'}
                    parents_here = {st['parent'] for st in steps if st['a'] == 'create'}
                    parents = self._descr_candidates(
                        lambda d: d.NODETYPE.localname in CREATABLE[tname]
                        and (d.Handle not in touched or d.Handle in updated_here))
                    if not parents:
                        continue
                    parent = rng.choice(parents).Handle
                    # often: a second child under the same parent, or a child under a descriptor that this very
                    # transaction updates (the parent's version is then raised more than once by one transaction)
                    pref = [x.Handle for x in parents if x.Handle in updated_here or x.Handle in parents_here]
                    if pref and rng.random() < 0.6:
                        parent = rng.choice(pref)
                    self.created += 1
                    h = f'new{self.created}.{tname[:4].lower()}'
                step = self._mk_create_step(tname, h, parent)
                if step is None:
                    continue
                touched.add(h)
                steps.append(step)
                if tname in ('ChannelDescriptor', 'VmdDescriptor') and rng.random() < 0.5:
                    # child in the same transaction (parent first or child first is decided at execution)
                    ctype = 'NumericMetricDescriptor' if tname == 'ChannelDescriptor' else 'ChannelDescriptor'
                    self.created += 1
                    ch = f'new{self.created}.{ctype[:4].lower()}'
                    cstep = self._mk_create_step(ctype, ch, h)
                    if cstep is not None:
                        touched.add(ch)
                        steps.append(cstep)
            else:  # delete
                updated_here = {st['h'] for st in steps if st['a'] == 'update'}
                cands = self._descr_candidates(
                    lambda d: d.Handle not in touched and d.NODETYPE.localname in DELETABLE
                    and (d.parent_handle not in touched or d.parent_handle in updated_here))
                ctx_cands = [d for d in cands if d.is_context_descriptor
                             and len(m.context_states.descriptor_handle.get(d.Handle, [])) >= 2]
                if ctx_cands and rng.random() < 0.5:
                    cands = ctx_cands  # a context descriptor that owns several states
                if not cands:
                    continue
                d = rng.choice(cands)
                sub = m.get_all_descriptors_in_subtree(d)
                if any(x.Handle in touched for x in sub):
                    continue
                sub_handles = {x.Handle for x in sub}
                if any(st.get('parent') in sub_handles for st in steps) and rng.random() < 0.9:
                    continue  # (mostly) do not delete a sub-tree into which this transaction creates a descriptor
                for x in sub:
                    touched.add(x.Handle)
                steps.append({'a': 'delete', 'h': d.Handle})
                for x in sub:
                    if x.is_context_descriptor:
                        hs = [st.Handle for st in m.context_states.descriptor_handle.get(x.Handle, [])]
                        if hs:
                            self.removed_ctx.setdefault(x.Handle, []).extend(hs)
                if d.NODETYPE.localname in CREATABLE:
                    self.removed_handles.append((d.NODETYPE.localname, d.Handle, d.parent_handle))
        if not steps:
            return None
        iface = rng.choice(['classic', 'classic', 'entity'])
        if force_entity:
            iface = 'entity'
        if rng.random() < 0.3:
            rng.shuffle(steps)  # e.g. child before parent
        return {'k': 'descr', 'iface': iface, 'steps': steps}

    def _mk_create_step(self, tname, h, parent):
        m = self.m
        pm = m.data_model.pm_names
        cls = m.data_model.get_descriptor_container_class(getattr(pm, tname))
        for _try in range(8):
            d = cls(h, parent)
            tmp = V.gen_instance(cls, self.rng)
            # copy generated members (keeps Handle / parent of d)
            muts = []
            for name, prop in tmp.sorted_container_properties():
                if name in ('Handle', 'DescriptorVersion', 'Extension'):
                    continue
                val = prop.get_actual_value(tmp)
                if val is None or val == []:
                    continue
                try:
                    muts.append([[name], V.enc(val)])
                except TypeError:
                    continue
            if tname == 'AlertSignalDescriptor':
                conds = self._descr_candidates(lambda x: x.is_alert_condition_descriptor and x.parent_handle == parent)
                if conds and self.rng.random() < 0.8:
                    muts.append([['ConditionSignaled'], self.rng.choice(conds).Handle])
            if tname in ('AlertConditionDescriptor', 'LimitAlertConditionDescriptor'):
                mets = self._descr_candidates(lambda x: x.is_metric_descriptor)
                if mets:
                    muts.append([['Source'], [x.Handle for x in self.rng.sample(mets, self.rng.randint(0, min(2, len(mets))))]])
            try:
                apply_muts(d, muts)
                err = xsd.validate_descriptor(d, m.nsmapper) if self.validate else None
            except Exception as ex:  # noqa: BLE001
                err = repr(ex)
            if err is None:
                if d.is_context_descriptor:
                    return {'a': 'create', 'type': tname, 'h': h, 'parent': parent, 'muts': muts, 'state_muts': [],
                            'with_state': False}
                st = m.data_model.mk_state_container(d)
                smuts = self._gen_state_muts(st, 2) if self.rng.random() < 0.6 else []
                return {'a': 'create', 'type': tname, 'h': h, 'parent': parent, 'muts': muts, 'state_muts': smuts,
                        'with_state': self.rng.random() < 0.85}
        return None

    def gen_op(self, kinds=None, p_abort=0.0):
        """p_abort: probability that the operation carries a crash point ('abort_at'); the model then does not apply it"""
        rng = self.rng
        kinds = kinds or self.kinds or ['state'] * 6 + ['context'] * 2 + ['descr'] * 3 + ['empty']
        for _ in range(10):
            k = rng.choice(kinds)
            if p_abort and self.retry is not None and rng.random() < 0.6:
                # the application retries the operation that was aborted just before
                op, self.retry = self.retry, None
                k = None
            elif k == 'state':
                op = self.gen_state_op()
            elif k in STATE_TT:
                op = self.gen_state_op(k)
            elif k == 'context':
                op = self.gen_context_op()
            elif k == 'descr':
                op = self.gen_descr_op()
            elif k == 'empty':
                op = {'k': 'empty', 'tt': rng.choice(STATE_TT + ('context', 'descr'))}
            else:
                raise ValueError(k)
            if op is None:
                continue
            if p_abort and k is not None and rng.random() < p_abort:
                op['abort_at'] = rng.randrange(body_steps(op))
            if self.p_stale and rng.random() < self.p_stale:
                hs = sorted(d.Handle for d in self.m.descriptions.objects)
                op['prefetch'] = rng.sample(hs, min(len(hs), rng.randint(2, 8)))
            # apply to the model; drop operations the model rejects
            try:
                apply_op(self.m, op, Env(crash_at=op.get('abort_at'), cache=self.cache))
            except OpRejected as ex:
                if not str(ex).startswith('commit refused'):
                    continue
                # a transaction that the library refuses as a whole at commit time stays in the plan: refusing it must
                # not leave any trace
                op['refused_by_model'] = True
            except InjectedCrash:
                self.retry = {kk: copy.deepcopy(vv) for kk, vv in op.items() if kk not in ('abort_at', 'id', 'prefetch')}
                # the model is unchanged; handles whose re-creation was aborted can be re-created later
                if op['k'] == 'descr':
                    for st in op['steps']:
                        if st['a'] == 'create' and not st['h'].startswith('new'):
                            self.removed_handles.append((st['type'], st['h'], st['parent']))
            self.n += 1
            op['id'] = self.n
            if self.validate:
                # the executor re-validates what it is about to commit: under concurrent writers an operation may
                # meet another base state than the model had, and an application would not commit invalid content
                op['validate'] = True
            return op
        return None


# =========================================================================================== execution
class Env:
    """hooks for the executor: step() is called between the API steps of a transaction body"""

    def __init__(self, crash_at=None, on_handout=None, cache=None):
        self.cache = cache  # handle -> entity kept from an earlier operation (None: never use stale entities)
        self.crash_at = crash_at
        self.stale_used = 0
        self.validate = False
        self.stale_outdated = 0
        self.j = 0
        self.on_handout = on_handout  # callable(kind, obj) for isolation probes
        self.pre_commit = None  # callable(mgr) executed as the last statement of the transaction body
        self.steps = 0

    def step(self):
        self.steps += 1
        if self.crash_at is not None and self.j == self.crash_at:
            self.j += 1
            raise InjectedCrash(f'crash point {self.crash_at}')
        self.j += 1

    def before_commit(self, mgr):
        if self.pre_commit is not None:
            self.pre_commit(mgr)

    def handout(self, kind, obj):
        if self.on_handout is not None:
            self.on_handout(kind, obj)

    def check_valid(self, mdib, obj):
        """(only for operations generated with validation) refuse to commit schema-invalid content"""
        if not self.validate or obj is None:
            return
        try:
            if hasattr(obj, 'is_state_container') and obj.is_state_container:
                err = xsd.validate_state(obj, mdib.nsmapper)
            else:
                err = xsd.validate_descriptor(obj, mdib.nsmapper)
        except Exception as ex:  # noqa: BLE001
            err = repr(ex)
        if err is not None:
            raise ValueError(f'harness: content would be schema-invalid on this base state: {str(err)[:200]}')


_REJECT = None


def _reject_types():
    global _REJECT
    if _REJECT is None:
        from sdc11073.exceptions import ApiUsageError
        _REJECT = (KeyError, ValueError, ApiUsageError)
    return _REJECT


def apply_op(mdib, op, env: Env | None = None):
    """execute one generated operation against a ProviderMdib. Raises OpRejected if the API refuses it,
    InjectedCrash if a crash point fired; any other exception propagates (commit failure)."""
    env = env or Env()
    env.validate = bool(op.get('validate'))
    k = op['k']
    rej = _reject_types()
    in_body = [True]
    try:
        if k == 'empty':
            with tr_ctx(mdib, op['tt']) as mgr:
                env.step()
                env.before_commit(mgr)
                in_body[0] = False
        elif k == 'state':
            _apply_state(mdib, op, env, in_body)
        elif k == 'context':
            _apply_context(mdib, op, env, in_body)
        elif k == 'descr':
            _apply_descr(mdib, op, env, in_body)
        else:
            raise ValueError(f'unknown op kind {k}')
    except InjectedCrash:
        raise
    except rej as ex:
        if in_body[0]:
            raise OpRejected(f'{type(ex).__name__}: {ex}') from ex
        from sdc11073.exceptions import ApiUsageError
        if isinstance(ex, ApiUsageError):
            # the commit itself refused the transaction (explicit API refusal before anything was changed);
            # any other exception type from a commit is a failed commit and propagates
            raise OpRejected(f'commit refused: {ex}') from ex
        raise
    finally:
        if op.get('prefetch') and env.cache is not None:
            for h in op['prefetch']:
                try:
                    ent = mdib.entities.by_handle(h)
                except rej:
                    ent = None
                if ent is not None:
                    env.cache[h] = ent


def _get_ent(mdib, h, stale, env):
    """entity for a write: a fresh one, or (stale) the object the application fetched after an earlier operation;
    called inside the transaction (mdib lock held)"""
    if stale and env.cache is not None and h in env.cache:
        if mdib.descriptions.handle.get_one(h, allow_none=True) is None:
            raise KeyError(h)  # the application would not write an entity that was deleted meanwhile
        env.stale_used += 1
        ent = env.cache[h]
        if ent.descriptor.DescriptorVersion != mdib.descriptions.handle.get_one(h).DescriptorVersion:
            env.stale_outdated += 1
        return ent
    ent = mdib.entities.by_handle(h)
    if ent is None:
        raise KeyError(h)
    return ent


def _apply_state(mdib, op, env, in_body):
    tt = op['tt']
    with tr_ctx(mdib, tt) as mgr:
        env.step()
        if op.get('iface') == 'entity':
            ents = []
            for it in op['items']:
                ent = _get_ent(mdib, it['h'], it.get('stale'), env)
                env.handout('entity', ent.state)
                apply_muts(ent.state, it['muts'])
                env.check_valid(mdib, ent.state)
                ents.append(ent)
                env.step()
            if len(ents) == 1:
                mgr.write_entity(ents[0])
            else:
                mgr.write_entities(ents)
            env.step()
        else:
            for it in op['items']:
                st = mgr.get_state(it['h'])
                env.handout('tx_state', st)
                env.step()
                apply_muts(st, it['muts'])
                env.check_valid(mdib, st)
                env.step()
        env.before_commit(mgr)
        in_body[0] = False


def _apply_context(mdib, op, env, in_body):
    pm_types = mdib.data_model.pm_types
    with tr_ctx(mdib, 'context') as mgr:
        env.step()
        if op.get('iface') == 'entity':
            dh = op['steps'][0]['d']
            ent = mdib.entities.by_handle(dh)
            if ent is None:
                raise KeyError(dh)
            modified = []
            for s in op['steps']:
                if s['a'] == 'new':
                    st = ent.new_state(s['h'])
                    if s.get('assoc'):
                        st.ContextAssociation = pm_types.ContextAssociation.ASSOCIATED
                else:
                    st = ent.states[s['h']]
                    if s.get('assoc'):
                        st.ContextAssociation = pm_types.ContextAssociation(s['assoc'])
                env.handout('entity', st)
                apply_muts(st, s['muts'])
                env.check_valid(mdib, st)
                modified.append(s['h'])
                env.step()
            mgr.write_entity(ent, modified)
            env.step()
        else:
            for s in op['steps']:
                if s['a'] == 'new':
                    st = mgr.mk_context_state(s['d'], s['h'], set_associated=bool(s.get('assoc')))
                    apply_muts(st, s['muts'])
                    env.check_valid(mdib, st)
                elif s['a'] == 'upd':
                    st = mgr.get_context_state(s['h'])
                    env.handout('tx_state', st)
                    if s.get('assoc'):
                        st.ContextAssociation = pm_types.ContextAssociation(s['assoc'])
                    apply_muts(st, s['muts'])
                    env.check_valid(mdib, st)
                else:
                    mgr.disassociate_all(s['d'])
                env.step()
        env.before_commit(mgr)
        in_body[0] = False


def _apply_descr(mdib, op, env, in_body):
    pm = mdib.data_model.pm_names
    with tr_ctx(mdib, 'descr') as mgr:
        env.step()
        entity = op.get('iface') == 'entity'
        for s in op['steps']:
            if s['a'] == 'update':
                if entity:
                    ent = _get_ent(mdib, s['h'], s.get('stale'), env)
                    env.handout('entity', ent.descriptor)
                    apply_muts(ent.descriptor, s['muts'])
                    env.check_valid(mdib, ent.descriptor)
                    if s.get('with_state') and not ent.is_multi_state:
                        apply_muts(ent.state, s['state_muts'])
                        env.check_valid(mdib, ent.state)
                    mgr.write_entity(ent)
                else:
                    d = mgr.get_descriptor(s['h'])
                    env.handout('tx_descr', d)
                    apply_muts(d, s['muts'])
                    env.check_valid(mdib, d)
                    if s.get('with_state'):
                        st = mgr.get_state(s['h'])
                        env.handout('tx_state', st)
                        apply_muts(st, s['state_muts'])
                        env.check_valid(mdib, st)
            elif s['a'] == 'create':
                if entity:
                    ent = mdib.entities.new_entity(getattr(pm, s['type']), s['h'], s['parent'])
                    apply_muts(ent.descriptor, s['muts'])
                    env.check_valid(mdib, ent.descriptor)
                    if not ent.is_multi_state:
                        apply_muts(ent.state, s['state_muts'])
                        env.check_valid(mdib, ent.state)
                    mgr.write_entity(ent)
                else:
                    cls = mdib.data_model.get_descriptor_container_class(getattr(pm, s['type']))
                    d = cls(s['h'], s['parent'])
                    apply_muts(d, s['muts'])
                    env.check_valid(mdib, d)
                    st = None
                    if s.get('with_state', True):
                        st = mdib.data_model.mk_state_container(d)
                        apply_muts(st, s['state_muts'])
                        env.check_valid(mdib, st)
                    mgr.add_descriptor(d, state_container=st)
            elif s['a'] == 'addstate':
                d = mgr.get_descriptor(s['h'])
                st = mdib.data_model.mk_state_container(d)
                apply_muts(st, s['state_muts'])
                env.check_valid(mdib, st)
                mgr.add_state(st)
            elif s['a'] == 'delete':
                if entity:
                    ent = mdib.entities.by_handle(s['h'])
                    if ent is None:
                        raise KeyError(s['h'])
                    mgr.remove_entity(ent)
                else:
                    mgr.remove_descriptor(s['h'])
            env.step()
        env.before_commit(mgr)
        in_body[0] = False


def body_steps(op):
    """number of crash points of the operation's transaction body (Env.step calls)"""
    k = op['k']
    if k == 'empty':
        return 1
    if k == 'state':
        n = len(op['items'])
        return 1 + (n + 1 if op.get('iface') == 'entity' else 2 * n)
    if k == 'context':
        n = len(op['steps'])
        return 1 + (n + 1 if op.get('iface') == 'entity' else n)
    if k == 'descr':
        return 1 + len(op['steps'])
    return 1
