"""World B: real SdcProvider + real SdcConsumer(s) (+ scripted peers) over the simulated network."""
from __future__ import annotations

import random

from . import aio
from . import net as N
from . import sched as S
from . import workload as W
from .history import History

PROVIDER_IP = '10.0.0.1'
CONSUMER_IPS = ['10.0.0.2', '10.0.0.3', '10.0.0.4']


class _Wsd:
    """stand-in for WS-Discovery (as tests.mockstuff.MockWsDiscovery): records what the provider publishes"""

    def __init__(self, ip):
        self._ip = ip
        self.published = []
        self.cleared = []

    @property
    def active_address(self):
        return self._ip

    def publish_service(self, epr, types, scopes, x_addrs):
        self.published.append((epr, list(types), scopes, list(x_addrs)))

    def clear_service(self, epr):
        self.cleared.append(epr)


class node:
    """context manager: code inside runs 'on' the given simulated host (spawned threads inherit it)"""

    def __init__(self, ip):
        self.ip = ip

    def __enter__(self):
        t = S.SCHED.current
        self.prev = t.node
        t.node = self.ip

    def __exit__(self, *a):
        S.SCHED.current.node = self.prev


def draw_config(rng: random.Random, **over):
    cfg = {
        'mdib': rng.choice(['tns', 'tns', 'two']),
        'async_mgr': rng.random() < 0.5,
        'ref_param': rng.random() < 0.3,
        'chunk_size': rng.choice([0, 0, 0, 1, 7, 64, 512, 4096]),
        'consumer_chunk': rng.choice([0, 0, 0, 3, 64, 512]),
        'provider_codings': rng.choice([None, None, [], ['gzip'], ['x-lz4'], ['gzip', 'x-lz4']]),
        'consumer_codings': rng.choice([None, None, [], ['gzip'], ['x-lz4'], ['x-lz4', 'gzip']]),
        'frag_max': rng.choice([None, None, None, 13, 100, 4000]),
        'latency': rng.choice([0.0, 0.0, 0.001, 0.02]),
        'max_subscription_duration': rng.choice([15, 15, 7, 30]),
        'periodic': rng.choice([None, None, None, 0.5, 2.0]),
        'deferred': True,
        'validate': True,
    }
    cfg.update(over)
    if cfg['async_mgr'] and (cfg['provider_codings'] is None or 'x-lz4' in cfg['provider_codings']):
        # aiohttp (stubbed here, and the real one alike) only decodes gzip/deflate, but SoapClientAsync advertises every
        # locally enabled coding in Accept-Encoding; an async provider with lz4 enabled is a configuration the stub
        # cannot judge (see DESIGN.md, observations)
        cfg['provider_codings'] = [c for c in (cfg['provider_codings'] or ['gzip']) if c != 'x-lz4']
    return cfg


class _NameOrderedSet(set):
    """a set of classes that iterates in name order (not in address order)"""

    def __iter__(self):
        return iter(sorted(set.__iter__(self), key=lambda c: (c.__module__, c.__qualname__)))


class WorldB:
    def __init__(self, ctx, cfg):
        self.ctx = ctx
        self.s = ctx.s
        self.cfg = cfg
        self.net = N.NET
        self.net.frag_max = cfg.get('frag_max')
        self.net.latency = cfg.get('latency', 0.0)
        self.provider = None
        self.mdib = None
        self.hist = None
        self.consumers = []
        self.cmdibs = []
        self.wsd = None

    # ------------------------------------------------------------------ provider
    def provider_components(self):
        from sdc11073.provider import providerimpl as pi
        cfg = self.cfg
        if cfg.get('async_mgr'):
            comp = pi.provider_components_async_factory()
            comp.soap_client_class = aio.sim_soap_client_async_class()
            if cfg.get('ref_param'):
                from sdc11073.provider.subscriptionmgr_async import SubscriptionsManagerReferenceParamAsync
                comp.subscriptions_manager_class = {'StateEvent': SubscriptionsManagerReferenceParamAsync,
                                                    'Set': SubscriptionsManagerReferenceParamAsync}
        else:
            comp = pi.provider_components_sync_factory()
            if cfg.get('ref_param'):
                from sdc11073.provider.subscriptionmgr import ReferenceParamSubscriptionsManager
                comp.subscriptions_manager_class = {'StateEvent': ReferenceParamSubscriptionsManager,
                                                    'Set': ReferenceParamSubscriptionsManager}
        return comp

    def start_provider(self, ssl_container=None, role_components='example', mdib=None, start=True, **kw):
        from sdc11073.provider import SdcProvider
        from sdc11073.xml_types.dpws_types import ThisDeviceType, ThisModelType
        cfg = self.cfg
        with node(PROVIDER_IP):
            self.mdib = mdib or W.load_mdib(cfg['mdib'])
            self.mdib.instance_id = 1
            self.wsd = _Wsd(PROVIDER_IP)
            model = ThisModelType(manufacturer='M', manufacturer_url='www.example.com', model_name='SimDevice',
                                  model_number='1.0', model_url='www.example.com/m', presentation_url='www.example.com/p')
            device = ThisDeviceType(friendly_name='Sim', firmware_version='0.1', serial_number='1')
            rpc = None
            if role_components == 'example':
                from tutorial.productandroles.exampleproduct import EXAMPLE_ROLE_PROVIDER_COMPONENTS
                rpc = EXAMPLE_ROLE_PROVIDER_COMPONENTS
            elif role_components is not None:
                rpc = role_components
            self.provider = SdcProvider(self.wsd, model, device, self.mdib, None, cfg.get('validate', True),
                                        ssl_context_container=ssl_container,
                                        max_subscription_duration=cfg.get('max_subscription_duration', 15),
                                        components=self.provider_components(), role_provider_components=rpc,
                                        chunk_size=cfg.get('chunk_size', 0), **kw)
            if cfg.get('provider_codings') is not None:
                self.provider.set_used_compression(*cfg['provider_codings'])
            if cfg.get('contextstates_in_getmdib') is not None:
                # False: GetMdibResponse carries no context states, the consumer fetches them with GetContextStates
                self.provider.contextstates_in_getmdib = bool(cfg['contextstates_in_getmdib'])
            self.hist = History(self.mdib, self.s, front=True)
            if start:
                self.provider.start_all(start_rtsample_loop=False, periodic_reports_interval=cfg.get('periodic'))
                self.boot()
        return self.provider

    def boot(self):
        """let every freshly started library thread execute its first statements (the housekeeping thread sets its own
        run flag when it starts: a stop_all() that comes before that would wait for it forever - observed, outside the
        listed properties)"""
        self.s.sleep(0.001)

    # ------------------------------------------------------------------ consumer
    def start_consumer(self, idx=0, ssl_container=None, init_mdib=True, force_ssl=False, **kw):
        from sdc11073.consumer.consumerimpl import SdcConsumer, default_components_factory
        from sdc11073.mdib import ConsumerMdib
        cfg = self.cfg
        ip = CONSUMER_IPS[idx]
        with node(ip):
            comp = default_components_factory()
            # the library keeps the service handler classes in a set (hashed by address): its iteration order decides how
            # many lines _mk_hosted_service_client executes, i.e. it is a source of nondeterminism -> fixed order
            comp.service_handlers = _NameOrderedSet(comp.service_handlers)
            if cfg.get('ref_param'):
                from sdc11073.consumer.subscription import ClientSubscriptionManagerReferenceParams
                comp.subscription_manager_class = ClientSubscriptionManagerReferenceParams
            if not cfg.get('deferred', True):
                from sdc11073.dispatch import RequestDispatcher
                comp.action_dispatcher_class = RequestDispatcher
            xaddr = self.provider.get_xaddrs()[0]
            c = SdcConsumer(xaddr, self.mdib.sdc_definitions, ssl_container, validate=cfg.get('validate', True),
                            components=comp, request_chunk_size=cfg.get('consumer_chunk', 0),
                            force_ssl_connect=force_ssl, **kw)
            if cfg.get('consumer_codings') is not None:
                c.set_used_compression(*cfg['consumer_codings'])
            self.last_consumer = c  # (reachable for the caller also if start_all raises)
            c.start_all(**(cfg.get('consumer_start_args') or {}))
            cm = None
            if init_mdib:
                cm = ConsumerMdib(c)
                cm.init_mdib()
            self.consumers.append(c)
            self.cmdibs.append(cm)
        return c, cm

    # ------------------------------------------------------------------ helpers
    def consumer_idle(self, c):
        """True if the consumer's deferred dispatcher has nothing queued"""
        d = c._services_dispatcher
        q = getattr(d, '_queue', None)
        return q is None or q.empty()

    def settle(self, max_virtual=5.0):
        def pending():
            if self.net.in_flight():
                return True
            return any(not self.consumer_idle(c) for c in self.consumers)
        self.s.idle_hooks = [pending]
        return self.s.settle(max_virtual)

    def stop_provider_guarded(self, send_end=True, max_virtual=120.0):
        """SdcProvider.stop_all() in its own task with a virtual-time watchdog: returns (finished?, exception)"""
        import threading
        out = {}

        def run():
            try:
                with node(PROVIDER_IP):
                    self.provider.stop_all(send_subscription_end=send_end)
            except Exception as ex:  # noqa: BLE001
                out['exc'] = ex
            out['done'] = True

        t = threading.Thread(target=run, name='stop_all')
        t.start()
        t.join(max_virtual)
        return bool(out.get('done')), out.get('exc')

    def stop(self):
        for c in self.consumers:
            try:
                c.stop_all(unsubscribe=False)
            except Exception:  # noqa: BLE001
                pass
        if self.provider is not None:
            try:
                self.provider.stop_all(send_subscription_end=False)
            except Exception:  # noqa: BLE001
                pass
