"""World C: real WSDiscovery + NetworkingThread nodes and an adversary on the simulated UDP network."""
from __future__ import annotations

import urllib.parse

from lxml import etree

from . import net as N
from . import sched as S
from .xsd import NS

NODE_IPS = ['10.1.0.1', '10.1.0.2', '10.1.0.3', '10.1.0.4']
ADV_IP = '10.1.0.66'
WSD = NS['wsd']
WSA = NS['wsa']
ACTIONS = {k: f'{WSD}/{k}' for k in ('Hello', 'Bye', 'Probe', 'ProbeMatches', 'Resolve', 'ResolveMatches')}
TYPE_POOL = [('http://docs.oasis-open.org/ws-dd/ns/dpws/2009/01', 'Device'),
             ('http://standards.ieee.org/downloads/11073/11073-20702-2016', 'MedicalDevice'),
             ('urn:test:types', 'Printer'), ('urn:test:types', 'Scanner')]


def qn(t):
    return etree.QName(t[0], t[1])


# ------------------------------------------------------------------------------------------ reference matcher
def ref_match_scope(probe_scope: str, service_scope: str, rule: str | None) -> bool:
    """written from the statement: RFC 3986 matching compares scheme and authority case-insensitively and the path
    segment-wise as a prefix after percent-decoding; string matching is exact"""
    if rule is not None and rule.endswith('/strcmp0'):
        return probe_scope == service_scope
    a = urllib.parse.urlsplit(probe_scope)
    b = urllib.parse.urlsplit(service_scope)
    if a.scheme.lower() != b.scheme.lower() or a.netloc.lower() != b.netloc.lower():
        return False
    sa = [urllib.parse.unquote(x) for x in a.path.split('/')]
    sb = [urllib.parse.unquote(x) for x in b.path.split('/')]
    if len(sa) > len(sb):
        return False
    return sb[:len(sa)] == sa


def ref_matches(service_types, service_scopes, probe_types, probe_scopes, rule):
    for t in probe_types or []:
        if t not in service_types:
            return False
    for ps in probe_scopes or []:
        if not any(ref_match_scope(ps, ss, rule) for ss in (service_scopes or [])):
            return False
    return True


# ------------------------------------------------------------------------------------------ message parsing (harness side)
def parse_wsd(data: bytes):
    """-> dict(action, mid, relates, eprs[(epr, metadata_version, types, scopes, xaddrs)], has_appseq, probe(...))"""
    try:
        x = etree.fromstring(data, parser=etree.XMLParser(resolve_entities=False, no_network=True))
    except etree.XMLSyntaxError:
        return None
    hdr = x.find(f'{{{NS["s12"]}}}Header')
    body = x.find(f'{{{NS["s12"]}}}Body')
    if hdr is None or body is None or not len(body):
        return None

    def htext(tag):
        el = hdr.find(f'{{{WSA}}}{tag}')
        return el.text.strip() if el is not None and el.text else None

    out = {'action': htext('Action'), 'mid': htext('MessageID'), 'relates': htext('RelatesTo'),
           'has_appseq': hdr.find(f'{{{WSD}}}AppSequence') is not None, 'entries': [], 'probe': None, 'resolve': None}
    p = body[0]

    def entry(el):
        epr = el.find(f'{{{WSA}}}EndpointReference/{{{WSA}}}Address')
        mv = el.find(f'{{{WSD}}}MetadataVersion')
        ty = el.find(f'{{{WSD}}}Types')
        sc = el.find(f'{{{WSD}}}Scopes')
        xa = el.find(f'{{{WSD}}}XAddrs')
        types = []
        if ty is not None and ty.text:
            for tok in ty.text.split():
                pfx, _, local = tok.rpartition(':')
                types.append((ty.nsmap.get(pfx or None), local))
        return {'epr': epr.text.strip() if epr is not None and epr.text else None,
                'mv': int(mv.text) if mv is not None and mv.text and mv.text.strip().lstrip('-').isdigit() else None,
                'types': types, 'scopes': sc.text.split() if sc is not None and sc.text else None,
                'xaddrs': xa.text.split() if xa is not None and xa.text else []}

    local = etree.QName(p.tag).localname
    if local in ('Hello', 'Bye'):
        out['entries'].append(entry(p))
    elif local == 'ProbeMatches':
        out['entries'] = [entry(m) for m in p.findall(f'{{{WSD}}}ProbeMatch')]
    elif local == 'ResolveMatches':
        m = p.find(f'{{{WSD}}}ResolveMatch')
        if m is not None:
            out['entries'].append(entry(m))
    elif local == 'Probe':
        e = entry(p)
        sc = p.find(f'{{{WSD}}}Scopes')
        out['probe'] = {'types': e['types'], 'scopes': e['scopes'], 'rule': sc.get('MatchBy') if sc is not None else None}
    elif local == 'Resolve':
        out['resolve'] = entry(p)['epr']
    out['kind'] = local
    return out


# ------------------------------------------------------------------------------------------ message building (adversary)
def build(kind, mid, epr=None, mv=None, types=None, scopes=None, xaddrs=None, appseq=(1, 1), relates=None,
          to='urn:docs-oasis-open-org:ws-dd:ns:discovery:2009:01', match_by=None):
    nsmap = {'s12': NS['s12'], 'wsa': WSA, 'wsd': WSD}
    tmap = {}
    for ns, _ in types or []:
        if ns not in tmap:
            tmap[ns] = f't{len(tmap)}'
            nsmap[tmap[ns]] = ns
    env = etree.Element(etree.QName(NS['s12'], 'Envelope'), nsmap=nsmap)
    hdr = etree.SubElement(env, etree.QName(NS['s12'], 'Header'))
    etree.SubElement(hdr, etree.QName(WSA, 'To')).text = to
    etree.SubElement(hdr, etree.QName(WSA, 'Action')).text = ACTIONS[kind]
    etree.SubElement(hdr, etree.QName(WSA, 'MessageID')).text = mid
    if relates:
        etree.SubElement(hdr, etree.QName(WSA, 'RelatesTo')).text = relates
    if appseq is not None:
        a = etree.SubElement(hdr, etree.QName(WSD, 'AppSequence'))
        a.set('InstanceId', str(appseq[0]))
        a.set('MessageNumber', str(appseq[1]))
    body = etree.SubElement(env, etree.QName(NS['s12'], 'Body'))
    p = etree.SubElement(body, etree.QName(WSD, kind))

    def fill(el):
        if epr is not None:
            e = etree.SubElement(el, etree.QName(WSA, 'EndpointReference'))
            etree.SubElement(e, etree.QName(WSA, 'Address')).text = epr
        if types is not None:
            etree.SubElement(el, etree.QName(WSD, 'Types')).text = ' '.join(f'{tmap[ns]}:{l}' for ns, l in types)
        if scopes is not None:
            sc = etree.SubElement(el, etree.QName(WSD, 'Scopes'))
            sc.text = ' '.join(scopes)
            if match_by:
                sc.set('MatchBy', match_by)
        if xaddrs is not None:
            etree.SubElement(el, etree.QName(WSD, 'XAddrs')).text = ' '.join(xaddrs)
        if mv is not None:
            etree.SubElement(el, etree.QName(WSD, 'MetadataVersion')).text = str(mv)

    if kind in ('Hello', 'Bye', 'Probe', 'Resolve'):
        fill(p)
    elif kind == 'ProbeMatches':
        fill(etree.SubElement(p, etree.QName(WSD, 'ProbeMatch')))
    elif kind == 'ResolveMatches':
        fill(etree.SubElement(p, etree.QName(WSD, 'ResolveMatch')))
    return etree.tostring(env, xml_declaration=True, encoding='UTF-8')


class Adversary:
    def __init__(self, ip=ADV_IP):
        self.sock = N.SimUdpSocket()
        self.sock.bind((ip, 0))
        self.sock.mcast_if = ip
        self.n = 0

    def send(self, data, dst=None):
        dst = dst or (N.MULTICAST_GROUP, 3702)
        self.sock.sendto(data, dst)


def mk_udp_policy(rng, drop=0.0, dup=0.0, delay=0.0):
    def policy(dgram):
        r = rng.random()
        net = N.NET
        if r < drop:
            net.count('udp_drop')
            return []
        if r < drop + dup:
            net.count('udp_dup')
            return [0.0, rng.choice([0.0, 0.01, 0.3])]
        if r < drop + dup + delay:
            net.count('udp_delay')
            return [rng.choice([0.05, 0.4, 1.5])]
        return [0.0]
    return policy
