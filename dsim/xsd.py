"""Harness-side XML schema built directly from /repo/src/sdc11073/xsd (independent of the library's resolver)."""
from __future__ import annotations

import os

from lxml import etree

XSD_DIR = '/repo/src/sdc11073/xsd'

NS = {
    's12': 'http://www.w3.org/2003/05/soap-envelope',
    'wsa': 'http://www.w3.org/2005/08/addressing',
    'wse': 'http://schemas.xmlsoap.org/ws/2004/08/eventing',
    'wsd': 'http://docs.oasis-open.org/ws-dd/ns/discovery/2009/01',
    'dpws': 'http://docs.oasis-open.org/ws-dd/ns/dpws/2009/01',
    'mex': 'http://schemas.xmlsoap.org/ws/2004/09/mex',
    'msg': 'http://standards.ieee.org/downloads/11073/11073-10207-2017/message',
    'pm': 'http://standards.ieee.org/downloads/11073/11073-10207-2017/participant',
    'ext': 'http://standards.ieee.org/downloads/11073/11073-10207-2017/extension',
    'xsi': 'http://www.w3.org/2001/XMLSchema-instance',
}

_FILES = [('s12', 'soap-envelope.xsd'), ('wsa', 'ws-addr.xsd'), ('wse', 'eventing.xsd'),
          ('wsd', 'wsdd-discovery-1.1-schema-os.xsd'), ('dpws', 'wsdd-dpws-1.1-schema-os.xsd'),
          ('mex', 'MetadataExchange.xsd'), ('msg', 'BICEPS_MessageModel.xsd'),
          ('pm', 'BICEPS_ParticipantModel.xsd'), ('ext', 'ExtensionPoint.xsd')]


class _ByBasename(etree.Resolver):
    def resolve(self, url, pubid, context):
        base = os.path.basename(url.split('?')[0])
        if base == 'addressing':
            base = 'ws-addr.xsd'
        path = os.path.join(XSD_DIR, base)
        if os.path.exists(path):
            return self.resolve_filename(path, context)
        return None


_schema = None


def schema() -> etree.XMLSchema:
    global _schema
    if _schema is None:
        parser = etree.XMLParser(resolve_entities=True, no_network=True)
        parser.resolvers.add(_ByBasename())
        parts = ['<xsd:schema xmlns:xsd="http://www.w3.org/2001/XMLSchema" elementFormDefault="qualified">']
        for pfx, fn in _FILES:
            parts.append(f'<xsd:import namespace="{NS[pfx]}" schemaLocation="http://local/{fn}"/>')
        parts.append('</xsd:schema>')
        tree = etree.fromstring(''.join(parts).encode(), parser=parser)
        _schema = etree.XMLSchema(etree=tree)
    return _schema


def validate(node_or_bytes):
    """returns None if valid else the error text"""
    if isinstance(node_or_bytes, (bytes, str)):
        doc = etree.fromstring(node_or_bytes if isinstance(node_or_bytes, bytes) else node_or_bytes.encode(),
                               parser=etree.XMLParser(resolve_entities=False, no_network=True))
    else:
        doc = node_or_bytes
    sch = schema()
    if sch.validate(doc):
        return None
    return '; '.join(str(e.message) for e in list(sch.error_log)[:4])


def validate_state(state, nsmapper):
    """validate one state container by wrapping it into a GetMdStateResponse"""
    root = etree.Element(etree.QName(NS['msg'], 'GetMdStateResponse'), nsmap=nsmapper.ns_map)
    root.set('MdibVersion', '1')
    root.set('SequenceId', 'urn:uuid:00000000-0000-0000-0000-000000000000')
    mdstate = etree.SubElement(root, etree.QName(NS['msg'], 'MdState'))
    mdstate.append(state.mk_state_node(etree.QName(NS['pm'], 'State'), nsmapper))
    return validate(etree.fromstring(etree.tostring(root)))


def validate_descriptor(descr, nsmapper):
    root = etree.Element(etree.QName(NS['msg'], 'DescriptionModificationReport'), nsmap=nsmapper.ns_map)
    root.set('MdibVersion', '1')
    root.set('SequenceId', 'urn:uuid:00000000-0000-0000-0000-000000000000')
    part = etree.SubElement(root, etree.QName(NS['msg'], 'ReportPart'))
    part.append(descr.mk_node(etree.QName(NS['msg'], 'Descriptor'), nsmapper, set_xsi_type=True))
    return validate(etree.fromstring(etree.tostring(root)))
