"""regenerates MANIFEST.json from the table below (keeps it valid at all times)"""
import json

CHECKS = {
 'C01': ('exploration', 'seeded search over provider transaction histories x schedules in a full provider+consumer simulation with fault-free delivery; refinement of the consumer MDIB against the provider version history at every quiescent point (in a share of the runs the initial load itself races with commits and stalled handlers); notification sets compared with transaction results',
         'sampled histories/schedules; aiohttp session, sockets and WS-Discovery are stubs; tutorial role providers not installed', '6 (C01)'),
 'C02': ('exploration', 'seeded search over transaction histories (incl. aborts at crash points, retries of the aborted operation, writes of stale entities, delete + re-create) x writer interleavings (deterministic simulation, world A); invariants inside the commit critical section and over the recorded version history',
         'sampled histories and schedules: evidence, not proof; CPython GIL semantics; canonical snapshots walk the library\'s _props metadata', '6 (C02)'),
 'C03': ('fault_enumeration', 'per sampled transaction history every crash point of every transaction body is injected (exception after each API step), plus raising pre_commit_handler, API-rejected calls and nested-path write-through probes on every handed-out object; MDIB snapshot (content, sizes, remembered versions of deleted handles) + lookup audit must equal the pre-state',
         'crash points = boundaries between API calls of the generated body; histories are sampled; use of transaction objects after the with-block is out of scope', '6 (C03)'),
 'C06': ('exploration', 'seeded search over provider histories x delivery fault sequences (drop / duplicate / delay past later ones / replay by a store-and-forward middlebox, GetMdib racing with commits incl. a thread stall placed in the replay of buffered reports, a reload overtaking a report in flight, GetContextStates-based loading, SequenceId/InstanceId change) x schedules with thread stalls; invariants after every operation and refinement against the provider history at recovery points',
         'faults are sampled, not enumerated; the middlebox acknowledges every notification (provider-visible failures are C08); equality only demanded after faults stopped', '6 (C06)'),
 'C11': ('exploration', 'seeded operation sequences on a MultiKeyLookup (table machine, 1-3 tasks incl. concurrent readers, rejected insertions and re-indexing, duplicated 1:n keys) and on the provider MDIB tables with indexed-attribute changes and rejected operations; plus complete provider+consumer+middlebox sessions for the consumer tables (duplicated create parts = rejected insertions, description updates of indexed attributes); every index recomputed from the stored objects after each operation (the subscription table is audited in the C08 runs)',
         'sampled sequences; add_index on a non-empty table is not part of the claimed surface (the MDIB creates indices on empty tables)', '6 (C11)'),
 'C04': ('exploration', 'seeded search over transaction histories x writer interleavings (1-4 writer tasks, lock and line granularity) with scripted recording subscribers (some very slow, some joining while writers commit; stalls placed before the periodic store lock and inside the subscriber selection); every received message validated against the bundled XSDs and compared with the commit-time MDIB history (description reports against the MDIB snapshot of their version, periodic reports against their label)',
         'sampled; subscribers are scripted peers; wire elements parsed with the library container classes before canonicalisation', '6 (C04)'),
 'C07': ('exploration', 'seeded search over getter x writer interleavings in the simulated provider (thread stalls placed right before and right after the MDIB lock, requests for handles that come and go); every Get answer is refined against the provider history entry of the MdibVersion it states',
         'sampled schedules at lock and (sampled) line granularity; answers parsed with the library reader', '6 (C07)'),
 'C08': ('exploration', 'seeded search over sequences of Subscribe/Renew/GetStatus/Unsubscribe requests, transactions, virtual-clock advances across expiry, wall-clock jumps, endpoint failures, Unsubscribe racing with delivery to slow peers, commits racing with shutdown (stalled sender), filter lists with any XML whitespace, and shutdown; a reference liveness model driven only by what the scripted subscribers observed decides per (commit, subscription) what had to / must not arrive, plus the wire-level order of UnsubscribeResponse and later notifications',
         'sampled; tolerance window around expiry; after an observed delivery failure a subscription (and those sharing its connection) is treated as uncertain; housekeeping grace 2.3 s', '6 (C08)'),
 'C09': ('exploration', 'seeded search over operation calls (all kinds, direct/queued, scripted handler outcomes, unknown handles, bursts) x schedules x delivery faults (report delayed past / before the response, dropped, duplicated, merged into multi-part reports by middleboxes; fire-and-forget calls; handler exceptions with control characters); legality of the invocation-state sequence per transaction on the provider emission order, completion of the consumer Future against what was delivered',
         'sampled; operation handlers are scripted stubs; a Future is only required to complete if its final report was delivered', '6 (C09)'),
 'C10': ('exploration', 'seeded search over sequences of SetContextState calls (through the real consumer/provider stack and SCO worker) and set_location calls (also concurrent, with background commits and a thread stall placed before the MDIB lock) x schedules; association invariants evaluated inside the commit critical section on consecutive history entries',
         'sampled; uses the tutorial context role provider (the anchored implementation); explicit non-associated proposals keep their value', '6 (C10)'),
 'C20': ('exploration', 'seeded histories of provider transactions and text-store additions through the simulated stack, queries on the quiescent provider compared with a reference selection written from the BICEPS rules (history half of the technique only: no fault or schedule dimension, the concurrent case is C07)',
         'sampled histories and handle / filter lists; for size constraints only soundness of the returned texts is demanded', '6 (C20)'),
 'C14': ('exploration', 'seeded search over discovery histories (publish / clear / search / adversary announcements with arbitrary metadata versions, missing parts and repeated ids, id-memory floods) on a simulated UDP network with loss, duplication and delay; reference matcher and table model evaluated after every message a node acts on',
         'sampled; UDP sockets simulated; announcements without AppSequence ignored as the library does; only rfc3986 and strcmp0 rules judged', '6 (C14)'),
 'C15': ('exploration', 'same simulated discovery sessions; the virtual clock timestamps every queue entry and datagram, half of the runs force boundary outcomes of the random draws, some shrink the bounded send queue (tuning knob); per message: count, initial delay, first gap window, doubling with cap, send raster, loop-back suppression',
         'sampled draws (boundary-biased); send raster tolerance 0.12 s; loop-back judged while the id is within the 200-id memory', '6 (C15)'),
 'C13': ('fault_enumeration', 'stream faults placed inside real requests of a simulated healthy session: truncation followed by EOF at every byte offset of the framing regions and of a sampled body window, wrong lengths, malformed chunking, 1-byte fragmentation, bad codings, structure-aware XML mutations, unusual header values, DOCTYPE/entity payloads, replayed and inconsistent-but-valid notifications, sent by a scripted raw client to provider and consumer endpoints; termination (EOF-spin counter), escape, response well-formedness, XXE canaries, unchanged state, liveness of both parties afterwards',
         'truncation offsets complete inside the sampled window only; a silent open connection may keep a handler waiting (not decided); HTTP/0.9 request lines are answered by the standard library', '6 (C13)'),
 'C17': ('exploration', 'randomised framing knobs (chunk sizes, codings per party and changed at runtime, recv fragmentation, chunking shared HTTP server) per simulated provider+consumer session plus scripted peers with sloppy Accept-Encoding headers and corrupt / unsupported codings; every HTTP message on the simulated wire is re-parsed by a strict RFC 7230 parser, decoded and compared with the application-layer bytes; Content-Encoding checked against the governing Accept-Encoding',
         'the stream part of the property is decided; parsing arbitrary Accept-Encoding strings in isolation is covered only through the header variants scripted peers send; aiohttp session is a stub', '6 (C17)'),
 'C19': ('exploration', 'configuration matrix (provider TLS x consumer none/optional/enforced x own/shared (also plaintext) HTTP server x alternative host name, enumerated over the batch) x seeded histories (incl. consumer restart, retry after a failed handshake, a downgrade attempt against a plaintext peer, peer-supplied http addresses, raw TLS / plaintext peers reading what the provider advertises) and schedules in the simulated stack with modelled TLS contexts; every URL a TLS-configured party writes and every connection it opens is inspected in the network history; static check of mk_ssl_contexts with the repo test certificates',
         'TLS handshake/record layer is a model (which connection is wrapped with which context); certificates only in the static part', '6 (C19)'),
 'C12': ('exploration', 'seeded operation histories (construct / parse with absent optional members / mk_copy / deepcopy / update_from_other_container / nested writes / in-place (also nested) list appends / changed extension elements / serialise / parsing the tree of a live instance) over all container and data-type classes against a reference model with one private snapshot per live instance and the start-of-process defaults (history half of the technique only: no schedule, clock or fault)',
         'sampled histories; single task; copy.copy of a container is not an operation of the model (shallow by language definition)', '6 (C12)'),
}
TECH = 'deterministic simulation with fault injection (seeded scheduler + virtual clock + simulated network, fork per run, ddmin replay)'

NA = [
 ('C05', 'pure function of its input (object -> XML -> object): no schedule, clock, fault or interleaving to simulate; see DESIGN.md section 6'),
 ('C16', 'pure functions of their arguments (scope string conversion / location filter): nothing for a simulator to decide; see DESIGN.md section 6'),
 ('C18', 'pure scalar conversions: no state, schedule, clock or fault; see DESIGN.md section 6'),
]
ALL = [f'C{i:02d}' for i in range(1, 21)]


def main():
    checks = []
    for cid, (level, text, note, ref) in sorted(CHECKS.items()):
        checks.append({
            'property_id': cid,
            'quick_cmd': f'./check {cid} --tier quick',
            'thorough_cmd': f'./check {cid} --tier thorough',
            'evidence_file': f'/verif/evidence/{cid}.json',
            'replay_cmd_template': f'./check {cid} --replay {{path}}',
            'engine': 'dsim',
            'level_claimed': {'category': level, 'text': text, 'design_ref': f'DESIGN.md section {ref}'},
            'level_note': note,
            'technique': TECH,
        })
    na = [{'property_id': i, 'reason': r} for i, r in NA]
    for cid in ALL:
        if cid not in CHECKS and cid not in dict(NA):
            na.append({'property_id': cid, 'reason': 'check not built yet in this round (simulation target, see DESIGN.md section 6); not claimed until its check exists'})
    m = {
        'version': 1,
        'setup_cmd': '/venv/bin/python -c "import sdc11073, lxml, lz4, aiohttp"',
        'hooks': {
            'guard': 'SDC11073_VERIF',
            'enable': 'harness-side monkeypatches only (dsim.patches.install, called by ./check); no hook code in /repo',
            'baseline_off_cmd': 'cd /repo && /venv/bin/python -m pytest -ra -q -p no:cacheprovider --timeout=900 --continue-on-collection-errors',
            'source_commits': [],
            'add_only': True,
        },
        'engines': [{'name': 'dsim', 'path': '/verif/dsim', 'serves_properties': sorted(CHECKS),
                     'kind_free_text': 'deterministic simulator: baton scheduler for real threads, virtual clock, simulated TCP/UDP/TLS, asyncio loop, fork-per-run batch runner, ddmin shrinker'}],
        'checks': checks,
        'not_applicable': na,
        'notes': 'fix: commits in /repo (genuine defects repaired) are listed in /verif/known_findings.json with status fixed',
    }
    with open('/verif/MANIFEST.json', 'w') as f:
        json.dump(m, f, indent=1)


if __name__ == '__main__':
    main()
