"""(re)builds /verif/seeded/<ID>-<X>/ from a table of verified seeded defects.

usage: tools_seeded.py <table.json>
table entries: {name, property, patch, demo, meta (original meta.json of the author, optional), recreated (bool),
                verified: {...}, caught_by: [{check, clause, sig, hits, runs}], note}
Nothing here is ever applied to /repo permanently: `tools_try_mutant.sh seeded/<name>/patch.diff <ids>` applies,
runs the quick checks and reverts."""
import json
import os
import shutil
import sys


def main():
    table = json.load(open(sys.argv[1]))
    root = '/verif/seeded'
    os.makedirs(root, exist_ok=True)
    for e in table:
        d = os.path.join(root, e['name'])
        os.makedirs(d, exist_ok=True)
        shutil.copy(e['patch'], os.path.join(d, 'patch.diff'))
        shutil.copy(e['demo'], os.path.join(d, 'demo.py'))
        meta = {}
        if e.get('meta') and os.path.exists(e['meta']):
            meta = json.load(open(e['meta']))
        out = {'property': e['property'], 'mutant': e['name'],
               'summary': meta.get('summary'), 'why_it_breaks': meta.get('why_it_breaks'),
               'needs_to_manifest': meta.get('needs_to_manifest'), 'files_changed': meta.get('files_changed'),
               'author': 'independent sub-agent that saw only the property text and a scratch worktree',
               'recreated_on_current_head': bool(e.get('recreated')),
               'verified_by_me': e.get('verified'), 'caught_by': e.get('caught_by'), 'note': e.get('note')}
        json.dump(out, open(os.path.join(d, 'meta.json'), 'w'), indent=1)
    print(len(table), 'seeded defects written')


if __name__ == '__main__':
    main()
