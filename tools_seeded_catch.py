"""runs the quick check(s) of every seeded defect in /verif/seeded against its patch (applied to /repo, reverted
afterwards) and prints one line per (defect, check). usage: tools_seeded_catch.py [names...]
/repo must be clean and no other check may run meanwhile."""
import json
import os
import re
import subprocess
import sys

ROOT = '/verif/seeded'


def main():
    names = sys.argv[1:] or sorted(os.listdir(ROOT))
    rc = 0
    for name in names:
        d = os.path.join(ROOT, name)
        meta = json.load(open(os.path.join(d, 'meta.json')))
        ids = sorted({c['check'] for c in meta.get('caught_by') or []}) or [meta['property']]
        patch = os.path.join(d, 'patch.diff')
        if subprocess.run(['git', '-C', '/repo', 'apply', '--check', patch]).returncode != 0:
            print(f'{name}: patch does not apply to the current tree')
            continue
        subprocess.run(['git', '-C', '/repo', 'apply', patch], check=True)
        try:
            for cid in ids:
                env = dict(os.environ, VERIF_NO_SHRINK='1', VERIF_NO_EVIDENCE='1')
                p = subprocess.run(['timeout', '900', '/verif/check', cid], capture_output=True, text=True, env=env)
                m = re.search(r'runs=(\d+)/\d+ .*violations=(\d+)', p.stdout)
                cl = sorted(set(re.findall(r'^  clause=(\S+)', p.stdout, re.M)))
                print(f'{name} {cid} exit={p.returncode} runs={m.group(1) if m else "?"} violating={m.group(2) if m else "?"} '
                      f'clauses={",".join(cl)}', flush=True)
                if p.returncode != 1:
                    rc = 1
        finally:
            subprocess.run(['git', '-C', '/repo', 'checkout', '--', '.'], check=True)
    subprocess.run(['find', '/verif/replays', '-name', '*.json', '-delete'])
    return rc


if __name__ == '__main__':
    sys.exit(main())
