#!/bin/bash
# determinism self-test: for each check, the first N runs of the quick batch are executed three times in fresh
# interpreters - 16 workers, 5 workers (event-log digests must be identical run by run) and under another
# PYTHONHASHSEED (message bytes legitimately differ there: only the verdicts must agree); the plans of the first 8 runs
# are replayed from replay files in fresh processes and must reproduce the batch digests.
# usage: tools_selftest.sh [N] [ids...]     writes selftest/<ID>.txt, prints one line per check
cd "$(dirname "$0")" || exit 2
n=${1:-48}; shift
ids=${*:-C01 C02 C03 C04 C06 C07 C08 C09 C10 C11 C12 C13 C14 C15 C17 C19 C20}
mkdir -p selftest; t=$(mktemp -d)
rc=0
for id in $ids; do
  VERIF_NO_SHRINK=1 VERIF_NO_EVIDENCE=1 VERIF_RUNS=$n VERIF_WALL=600 VERIF_WORKERS=16 VERIF_DIGEST_LOG=$t/a timeout 900 ./check $id > /dev/null 2>&1
  VERIF_NO_SHRINK=1 VERIF_NO_EVIDENCE=1 VERIF_RUNS=$n VERIF_WALL=600 VERIF_WORKERS=5 VERIF_DIGEST_LOG=$t/b timeout 900 ./check $id > /dev/null 2>&1
  VERIF_NO_SHRINK=1 VERIF_NO_EVIDENCE=1 VERIF_RUNS=$n VERIF_WALL=600 VERIF_WORKERS=16 VERIF_HASHSEED=12345 VERIF_DIGEST_LOG=$t/c timeout 900 ./check $id > /dev/null 2>&1
  # replay path: the plans of the first runs, re-executed from their replay files in fresh processes
  rep=0
  for pf in $t/a.plans/*.json; do
    [ -f "$pf" ] || continue
    timeout 300 ./check $id --replay $pf 2>&1 | grep -q 'REPLAY-DIVERGED\|HARNESS-ERROR' && rep=$((rep+1))
  done
  nrep=$(ls $t/a.plans/*.json 2>/dev/null | wc -l)
  same=$(diff <(cut -d' ' -f1-3 $t/a) <(cut -d' ' -f1-3 $t/b) | grep -c '^<')
  verd=$(diff <(cut -d' ' -f1,4 $t/a) <(cut -d' ' -f1,4 $t/c) | grep -c '^<')
  runs=$(wc -l < $t/a)
  line="$id runs=$runs digest_mismatches_16_vs_5_workers=$same verdict_mismatches_other_hashseed=$verd replayed_plans=$nrep replay_digest_mismatches=$rep"
  echo "$line"; { echo "$line"; echo "# index digest steps verdict (16 workers, PYTHONHASHSEED=0)"; cat $t/a; } > selftest/$id.txt
  [ "$same" = 0 ] && [ "$verd" = 0 ] && [ "$rep" = 0 ] && [ "$runs" -ge 1 ] || rc=1
done
rm -rf $t
exit $rc
