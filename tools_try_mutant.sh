#!/bin/bash
# usage: tools_try_mutant.sh <patch.diff> <check id> [more ids]  -- applies the patch to /repo, runs the quick checks, reverts
patch=$1; shift
cd /repo || exit 2
if ! git apply --check "$patch" 2>/dev/null; then echo "PATCH-DOES-NOT-APPLY $patch"; exit 3; fi
git apply "$patch"
for id in "$@"; do
  (cd /verif && VERIF_NO_EVIDENCE=1 VERIF_NO_SHRINK=${VERIF_NO_SHRINK:-1} timeout 900 ./check "$id" 2>&1 | grep -E "^VIOLATION|clause=|^C[0-9]+ tier|HARNESS" | cut -c1-220 | head -8)
done
git -C /repo checkout -- . 
git -C /repo status --short | grep -v '^??' | head -3
